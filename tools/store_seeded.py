#!/usr/bin/env python3
"""store a confirmed seeded change: tools/store_seeded.py <ID> <name> <detected_by> <initially: caught|missed> <note>"""
import json, os, shutil, sys
pid, name, detected_by, initially, note = sys.argv[1:6]
src = os.path.join(os.environ.get("SEEDROOT", "/tmp/seed_out"), pid)
dst = "/verif/seeded/%s" % name
os.makedirs(dst, exist_ok=True)
for f in ("patch.diff", "demo.diff"):
    shutil.copy(os.path.join(src, f), os.path.join(dst, f))
m = json.load(open(os.path.join(src, "meta.json")))
m["confirmed"] = ("demo passes on HEAD and fails with patch.diff; cargo check --workspace ok; the 104 baseline tests pass with the patch "
                  "(tools/verify_seeded.sh, scratch worktree, removed afterwards)")
m["detected_by"] = detected_by
m["first_run"] = initially
m["note"] = note
json.dump(m, open(os.path.join(dst, "meta.json"), "w"), indent=1)
print("stored", dst)
