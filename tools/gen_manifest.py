#!/usr/bin/env python3
"""Regenerates /verif/MANIFEST.json from the table below (kept in one place so it stays valid)."""
import json, os
VERIF = os.path.dirname(os.path.dirname(os.path.abspath(__file__)))
TRUST = ("Trusted: rustc type check / MIR construction / Instance resolution, the driver's MIR serialisation, the frozen "
         "tables in the rule module (each entry confirmed by reading). Host-target cargo check of the workspace; cfg(test) code and wasm32 not analysed.")
CHECKS = {
 "C20": dict(level="proof",
   text="Whole-program static lock-order proof: every (site, live guard, acquired class) pair in every body reachable in each executable respects the ranks read from LOCK_ORDER_*, or is serialised by the SAITO gate per the property's escape clause. Held sets (rustc MaybeInitializedPlaces) and acquisitions (all paths, resolved calls/awaits, class hierarchy for dyn, closure/future creation) are over-approximated, so no report means no inversion in any schedule.",
   note="Trusted: rustc type check/MIR/Instance resolution/dataflow, the driver's MIR serialisation, the tokio acquisition-API and spawn tables. Assumes guards are not smuggled through dyn Any/raw pointers/fn pointers and external crates do not call back into workspace code holding workspace locks.",
   technique="static analysis: MIR dataflow (live lock guards) + interprocedural lock-acquisition summaries over the resolved call graph"),
 "C02": dict(level="other",
   text="Decides two necessary clauses of the second sentence of C02 on every path: (1) in the bodies reachable from Transaction::generate and Block::generate - which run on wire data before validation - no u64 addition/multiplication/Iterator::sum touches a value derived from Slip.amount or the per-transaction totals unless through checked/saturating/overflowing arithmetic (a wrapped output sum makes total_out <= total_in true for an inflating transaction); (2) every accepting path of Transaction::validate for a non-privileged type passes the non-violating edge of total_out vs total_in. Does not decide conservation across histories (payouts, treasury, graveyard, ATR arithmetic, reorganisations).",
   note=TRUST,
   technique="static analysis: field-taint to overflow-capable MIR operations over the call graph + must-pass-through"),
 "C03": dict(level="other",
   text="Decides the lockstep and ownership structure without which the four views (UTXO set, by-height index, per-block flag, wallet) cannot describe the same chain: wind_chain (after an accepting validate) and unwind_chain (on every continuing path) update block ring, UTXO set, wallet and blockchain exactly once each with the same constant direction; a UtxoSet is mutated only by the wind/unwind primitives and two named exceptions, and those primitives are called only along wind/unwind; the longest-chain index and in_longest_chain are written only by the table's bodies. Does not decide exactness of wind/unwind for every fork shape and delivery order (value and history level). One genuine defect (the out-of-order branch of add_block rewrites the index without unwinding the ledger) is a known finding with an executed witness. Also decided: the block applied in a wind/unwind step was upgraded to a full block in the same step, and the pruning primitive (Slip::delete <- Transaction::delete <- Block::delete) is called only from the purge of old blocks.",
   note=TRUST,
   technique="static analysis: exactly-once/must-pass path rules over the MIR CFG, type- and field-based who-may-mutate analysis, call-graph caller sets"),
 "C04": dict(level="other",
   text="Decides the insert/undo pairing of add_block: after the candidate block was inserted into the block ring and into Blockchain.blocks, no exit with AddBlockResult::FailedNotValid is reachable without passing a call whose callee (transitively) removes it from both. Necessary for 'stored blocks exactly as they were'. Explicitly NOT decided: termination of the Wind/Unwind loop in Blockchain::validate (needs a termination argument over the indices returned by wind_chain/unwind_chain, not a shape rule) and restoration of ledger state after a mid-reorganisation failure. Also decided: the undo of a rejected block reaches no UtxoSet mutator.",
   note=TRUST,
   technique="static analysis: path exploration to tagged exits over the MIR CFG + callee summaries (field removal, ring deletion)"),
 "C05": dict(level="other",
   text="Decides the gating and 'strictly longer' structure of fork choice: the candidate is treated as longest only behind a true is_new_chain_the_longest_chain and the reorganisation starts only when that flag is set; a failing golden-ticket density check leads only to (false, _); every accepting path of is_new_chain_the_longest_chain passes an edge implying len(new) > len(old) (or the first-block exit) and old burn fee <= new burn fee; the density rule reads MIN_GOLDEN_TICKETS_NUMERATOR/DENOMINATOR. Does not decide monotonic tip height, the window arithmetic or behaviour under delivery orders. Also decided: the density window is anchored at the candidate tip (new_chain[0]) and both burn-fee accumulators are cumulative (every update adds to the previous value).",
   note=TRUST,
   technique="static analysis: must-pass-through with ordering-comparison orientation, verdict gating, constant provenance"),
 "C06": dict(level="other",
   text="Decides the structural part of the identity binding on every path: each accepting path of Block::validate (outside the SPV-mode and ghost exits) passes the equal edge of merkle_root vs the root recomputed from the carried transactions and the true edge of the creator-signature check; the signed bytes read merkle_root/creator/id/timestamp/previous_block_hash, pre_hash = hash(signed bytes), hash = hash(previous_block_hash ++ pre_hash); verify_block forwards a fetched block only on the equal edges of the advertised id/hash comparisons. Does not decide collision resistance of the merkle construction. Also decided: a merkle parent hashes left ++ right with no ordering or selection between the children; the merkle comparison is required in both validate_against_utxo modes.",
   note=TRUST,
   technique="static analysis: must-pass-through (edge-deletion reachability with boolean path sensitivity) over the MIR CFG, operand provenance by expression chasing"),
 "C07": dict(level="other",
   text="Decides that producer and validator are siblings of one computation: Block::create and Block::validate obtain consensus values from the same callee; Mempool::can_bundle_block and Block::validate compute the required work with the same function and the same argument provenance (parent burn fee, new block's timestamp, parent timestamp, heartbeat); for each of the 24 header fields the validator compares with a consensus value, the producer fills that field from the same consensus value, and the derived treasury/graveyard formulas are the same linear forms over cv.* and parent fields. Does not decide equality of the computed values across nodes and inputs (floating point, rebroadcast sets, lottery) - the substance of C07 is dynamic. Also decided: nothing is added to the block's transaction list after the producer's own double-spend scan.",
   note=TRUST,
   technique="static analysis: sibling cross-check of field/consensus-value correspondence and argument provenance extracted from MIR"),
 "C18": dict(level="other",
   text="Decides header coverage of the lite projection: each of the 32 Block fields that enter the signed bytes or the fixed wire header (plus hash and signature) is copied by generate_lite_block from the same field of the full block, merkle_root is recomputed from the projected transaction list, and the per-transaction chooser can build a placeholder only when neither inputs nor outputs touch a listed key. Does not decide placeholder merging or the recomputed commitment (the exponential pattern space the property names).",
   note=TRUST,
   technique="static analysis: field-copy coverage against identity sets derived from the serialisers, control-dependence of the placeholder branch"),
 "C08": dict(level="other",
   text="Decides that the routing-work requirement and the golden-ticket check are gates on every accepting path of Block::validate for a block with a known parent, that the requirement is computed from (parent burn fee, own timestamp, parent timestamp, heartbeat), that the ticket is re-targeted at the parent hash and checked against the parent difficulty, and that a failed routing-path / hop-signature check rejects a transaction. Does not decide monotonicity or bounds of the floating-point work function nor payout eligibility and amounts (value level).",
   note=TRUST,
   technique="static analysis: must-pass-through over the MIR CFG with operand-provenance predicates; verdict gating"),
 "C13": dict(level="other",
   text="Decides one necessary clause: the rebroadcast set is committed and compared - in consensus mode every accepting path of Block::validate passes cv.rebroadcast_hash == self.rebroadcast_hash and cv.total_rebroadcast_slips == self.total_rebroadcast_slips, and Block::generate accumulates both header values only under the ATR arm of the match on transaction type. Does not decide which outputs are eligible, ownership, amounts, or expiry across histories. Also decided: every ATR-typed transaction is folded into the rebroadcast hash, and consensus-value code looks blocks up by height only through the longest-chain index.",
   note=TRUST,
   technique="static analysis: must-pass-through over the MIR CFG; control-dependence of field writes on an enum arm"),
 "C09": dict(level="other",
   text="Decides writer/reader layout agreement of the hand-written codecs (the necessary condition that all-zero round-trip tests cannot see): for 11 codec pairs (Slip, Hop, Transaction, Block, GoldenTicket, HandshakeChallenge, HandshakeResponse, BlockchainRequest, ApiMessage, Version, Wallet disk form) the ordered (field, width) segments of the writer - widths taken from the compiler's types of the written expressions - and the constant ranges from which the reader initialises each field must coincide on the fixed-layout prefix; SLIP_SIZE/HOP_SIZE/TRANSACTION_SIZE/BLOCK_HEADER_SIZE equal that prefix; the Message tag table is injective and each decode arm builds the variant written with that tag. Does not decide value equality of variable parts, hash/signature preservation, GhostChainSync's count-scaled layout or the text formats. Also decided: Transaction::get_serialized_size is the same linear form as the writer's length; the block decoder adds no value-domain threshold of its own on values decoded from a carried transaction's header.",
   note=TRUST,
   technique="static analysis: extraction and comparison of writer and reader layout tables from MIR (sibling-implementation cross-check)"),
 "C10": dict(level="other",
   text="Decides panic-freedom of slicing / indexing / unwrapping / asserting on input bytes in the 15 decoder entry points and the byte-consuming callees they reach: every such operation is an obligation discharged by linear length facts from dominating tests (len < e => exit, len != c => exit, is_empty), loop-index facts of Range iteration, integer-division facts and constant-width try_into, with callees analysed in the caller's context (constant length or provable lower bound) and is_err()/is_ok() variant knowledge for unwraps. Decoders that cannot express failure are judged through all their call sites. Does not decide the allocation bound or arithmetic overflow (64-bit usize assumed). Three genuine defects (decoders that cannot reject) are recorded as known findings. Also decided: allocations sized by a decoded value (with_capacity / reserve / vec![x; n]) are bounded by a small multiple of the input length; string slicing and the TryFrom<String> parsers reached through try_into are covered.",
   note=TRUST + " The linear prover (analysis/linear.py) is a sound-by-construction combination search: it only ever subtracts non-negative multiples of available facts.",
   technique="static analysis: available-facts dataflow of linear length inequalities (ABCD-style bounds-check elimination) over MIR, context-sensitive over decoder callees"),
 "C11": dict(level="other",
   text="Decides absence, on the call graph reachable from the three peer-driven event handlers, of explicit crash shapes whose trigger is peer-chosen by construction: a match arm on a decoded Message that inevitably panics, an unwrap of pre-handshake peer state or of a peer lookup without a dominating check (variant knowledge from is_some/is_ok/is_err tests and Some-assignments), an unwrap of the Result of a workspace function that constructs Err, and reachability of a decoder with undischarged C10 obligations. Does not decide implicit panics on runtime-bounded values, stalls, isolation of honest peers' state, message sequences or schedules. Three genuine defects are recorded as known findings; four were repaired.",
   note=TRUST,
   technique="static analysis: call-graph reachability from handler entry points + variant-knowledge dataflow for unwrap sites + post-dominating panic detection on enum match arms"),
 "C14": dict(level="other",
   text="Decides that the pool and its reservation index move together on every path: each site removing pooled transactions releases their inputs in utxo_map before any success exit (a loop over the removed transactions counts from its header; a retain-style closure may release inside), each inserting site reserves them, and bundle_block has no failure exit between draining the pool and returning. Necessary for 'an unspent output that no pooled transaction spends can always be spent' and for the bundling clause; does not decide pool/ledger consistency over interleavings. One genuine defect (non-atomic bundling on Block::create failure) is recorded as a known finding. Also decided: a reservation is released only for a transaction that left the pool; the cached routing work is reset or adjusted at every pool mutation; the pool is re-validated against the ledger on every path of add_block_success / remove_block_transactions.",
   note=TRUST,
   technique="static analysis: field-mutation sites (incl. &mut passed to callees and closure upvars) + path exploration to exits over the MIR CFG"),
 "C17": dict(level="other",
   text="Decides the code-shape part of handshake authentication: who may mark a peer connected / record its key / index it by key (frozen table), that in the one network handler both writes are dominated by the true edge of verify(self.challenge_for_peer, response.signature, response.public_key) with the recorded key being the verified one, that the Network level indexes the peer only after an Ok result, that every Ok path clears the used challenge, and that issued challenges are fresh random bytes. Does not decide relay/reflection across connections or attacker interleavings (protocol state space).",
   note=TRUST,
   technique="static analysis: who-may-write field analysis, dominance by a verified edge, path exploration to Ok exits"),
 "C19": dict(level="other",
   text="Decides the structural clause that balance and unspent list are co-mutated: every body that inserts into / removes from / clears Wallet.unspent_slips also adds to / subtracts from / zeroes available_balance and vice versa (closures' captured fields resolved), and nothing outside impl Wallet can write the balance. Necessary for 'available balance equals the sum of the outputs listed as unspent'; does not decide amounts, agreement with the ledger or event orders. Also decided: loops that spend slips subtract the amount and queue the removal together in each iteration, and no path subtracts from the balance without removing from the unspent list.",
   note=TRUST,
   technique="static analysis: per-body field co-mutation over MIR (field-mutation classification, arithmetic direction of balance writes)"),
 "C01": dict(level="other",
   text="Decides the structural clause 'validation gates acceptance' on every path: each verdict (Transaction/Slip/Block/Blockchain::validate, signature and golden-ticket checks) computed on the acceptance chain, when it rejects, reaches no accept outcome of its consumer; nothing inserts into the pool around validation; Transaction::validate's accept paths for non-privileged types pass the signature check. A necessary condition of every clause of C01 - not the behaviour: it does not decide that the verdict functions compute the right answer. Also decided: the in-block double-spend scan checks and records each spent key individually (bulk insertion is reported).",
   note=TRUST,
   technique="static analysis: path-sensitive verdict-gating over MIR CFGs + who-may-write field analysis"),
}
NA = {
 "C12": "Quantifies over crash points in a runtime I/O journal; the only shape-level candidates (atomic rename, persist-before-announce) are not necessary conditions of the stated recovery guarantee, so a static claim would be vacuous or wrong.",
 "C15": "Convergence of a two-node message exchange under every schedule and chain pair, and a numerical bound on the fork-id ancestor estimate: protocol state space and arithmetic over chain contents, nothing decidable from code shape.",
 "C16": "Invariants of the fetch scheduler are over operation histories of a private state machine (quota arithmetic, ordering, eventual request); every structural proxy would be a frozen fragment of today's loop that an equivalent refactor would trip.",
}
ROUND3 = {
 "C01": " Round 3: also re-runs, under this id, the rules of the mechanisms the statement rests on (C03 lockstep/full-before-apply/order/ledger-owner: inputs are checked against the UTXO set of that same chain only if wind/unwind keep it in step; C13.derive: every ATR-typed transaction is matched against the derived commitment). The in-block double-spend rules locate the scan by the key type of its table, in Block::validate or any closure inside it.",
 "C02": " Round 3: C02.payout-exact - Block::validate accepts a block only with exactly the fee transaction its consensus values call for (compared when expected, compared when carried, count bounded); this rule found a genuine validator hole on the pinned tree (omitted payout / minted Fee transaction), repaired by a fix commit. Cross-lists C01.dup-scan/scan-exemptions and C13.handled.",
 "C03": " Round 3: the lockstep rule has a fifth view - Block.in_longest_chain is written with the step's direction in every wind/unwind step (directly or through a callee that stores a bool parameter into it).",
 "C04": " Round 3: C04.index-delete-neutral - on the deletion path every value stored into a ring slot's longest-chain marker derives from the old marker (or is the None default); found and repaired a genuine defect (marker defaulted to Some(0)). C04.recovery-rewinds-old-chain - some wind step can apply the old chain's blocks again after a failed wind (reachability, not termination): reports the livelock the property text records, kept as a known finding with an executed witness.",
 "C05": " Round 3: the density verdict is checked at every caller (a tip that fails the 2-of-6 rule must be discarded, not kept as a side block); burn-fee totals may be iterator sums.",
 "C07": " Round 3: C07.fee-tx-presence (the producer appends the fee transaction exactly when cv.fee_transaction is Some); cross-lists C13.compare/derive (incl. the counting unit of total_rebroadcast_slips) and C14.cached-work.",
 "C09": " Round 3: C09.inline-variants - Message variants whose payload is built inline in the match arm are read back at the offsets they are written.",
 "C10": " Round 3: the bounds engine is interprocedural - the caller's facts travel into helpers (parameters bound to argument values/lengths, struct-field lengths included), helpers returning bool/Result/Option export the facts that hold on their true/Ok/Some exits, and `let ok = a && b` flags carry the facts of their definition.",
 "C11": " Round 3: C11.peer-indexing - every index/slice into a field of a peer-decoded structure (Transaction, Slip, Hop, Block, GhostChainSync, handshake messages) in the 391 handler-reachable bodies is covered by a dominating length fact (95 sites, 7 reasoned exceptions; helpers are judged at their call sites); cross-lists C20.inversion/reacquire for handler-reachable bodies.",
 "C13": " Round 3: Block::generate counts ATR-typed outputs for total_rebroadcast_slips (the unit generate_consensus_values counts in).",
 "C14": " Round 3: release/reserve done by a helper that is handed the pool (`self.release_reserved_inputs(&tx)`) is recognised; an unreleased removal in a helper is judged at the helper's call sites.",
 "C17": " Round 3: C17.index-paired - a peer record leaves index_to_peers only together with its address_to_peers entry and is inserted only at a fresh index or behind a lookup; who-may tables are closed under private helpers.",
 "C18": " Round 3: C18.ordinal - the ordinal handed to Transaction::generate is a counter that a placeholder advances by txs_replacements.",
 "C19": " Round 3: C19.reserve-then-fail - no caller returns an error after Wallet::generate_slips reserved slips.",
}
for _k, _v in ROUND3.items():
    CHECKS[_k]["text"] += _v
ROUND4 = {
 "C01": " Round 4: C01.tx-dup (Transaction::validate contains a test that can tell a repeated input key; found a dead Vec-length test on the pinned tree, repaired) and C01.utxo-lookup (only the Fee transaction skips the per-input ledger lookup); cross-lists C03.marker-by-hash.",
 "C03": " Round 4: C03.marker-by-hash - a ring slot's longest-chain marker is set to the position of the block's hash (or cleared), ring positions are not computed with wrapping arithmetic.",
 "C04": " Round 4: cross-lists C05.gate (a chain-level refusal must come before the first unwind).",
 "C05": " Round 4: cross-lists C03.lockstep (the shared ancestor of two chains is found through in_longest_chain).",
 "C06": " Round 4: C06.merkle-covers-all - every carried transaction contributes at least one leaf; the verify_block rule is a must-pass over the equal edges.",
 "C07": " Round 4: C07.fee-slip-index - on every path of the construction region (enumerated, integer counters tracked) each output of the expected fee transaction carries its position as slip_index.",
 "C08": " Round 4: the per-hop closure of validate_routing_path cannot accept a hop without the true edge of the hop-signature verification.",
 "C09": " Round 4: C09.no-field-skipped (Ok only after each conditionally assigned wire field was decoded or its own presence test said nothing is left) and C09.read-before-decode (no decision on a field of the value under construction before it is assigned from the input).",
 "C10": " Round 4: arithmetic checked in u8/u16/u32 on non-constant values is an obligation (must be shown not to overflow); flag facts have both polarities.",
 "C11": " Round 4: C11.sized-alloc - capacities requested in handler-reachable bodies are constants or linear in lengths of existing collections.",
 "C13": " Round 4: cross-lists C01.utxo-lookup (a rebroadcast consumes the expiring output only if its input is looked up in the ledger).",
 "C14": " Round 4: a wholesale release (utxo_map.clear/drain) is allowed only where the whole pool has already been taken out.",
 "C17": " Round 4: issued challenges are fresh on every path (no definition reaching the stored value reads the outstanding challenge); random sources are closed under small helpers.",
 "C18": " Round 4: C18.placeholder-leaf - the field a receiver recomputes a placeholder's merkle leaf from is filled with the omitted transaction's leaf hash and is on the wire (reports the pinned tree: known finding with an exhaustive witness); cross-lists the C09 codec rules for the wire round trip.",
}
for _k, _v in ROUND4.items():
    CHECKS[_k]["text"] += _v
ROUND5 = {
 "C01": " Round 5: cross-lists C03.tx-apply-total.",
 "C02": " Round 5: cross-lists C13.derive (an ATR-typed transaction outside the commitment mints).",
 "C03": " Round 5: C03.tx-apply-total - every input and output of every transaction type is applied in both directions (no early exit, no thinning adaptor).",
 "C04": " Round 5: C04.unwind-nonempty - wind_chain hands back an Unwind continuation only when there is something to unwind.",
 "C05": " Round 5: C05.density-window - the ancestor walk of the density helper covers exactly DENOMINATOR - 1 blocks (loop-count algebra).",
 "C06": " Round 5: C06.root-recomputed - generate_merkle_root returns the stored header root only to lite clients.",
 "C08": " Round 5: C08.winner-first-match - the lottery winner is found by a first-match search, not a binary search over a repeating key.",
 "C10": " Round 5: C10.no-recursion - decoder bodies form an acyclic call graph.",
 "C11": " Round 5: cross-lists C14.reserve / release-only-removed (a refused transaction leaves no reservations).",
 "C13": " Round 5: cross-lists C03.tx-apply-total.",
}
for _k, _v in ROUND5.items():
    CHECKS[_k]["text"] += _v
ROUND6 = {
 "C01": " Round 6: C01.ledger-check-window - the block whose presence switches the ledger check on lies exactly tip - genesis_period (linear form of the lookup argument; callers pass the configured period).",
 "C02": " Round 6: cross-lists C03.tx-apply-total (a payout created by winding is withdrawn by unwinding).",
 "C03": " Round 6: C03.chain-segments - the wind/unwind segments are collected from the tip, previous_block_hash or the longest-chain index, never a by-height lookup that ignores chain membership.",
 "C04": " Round 6: cross-lists C20.inversion / reacquire / read-reentry for bodies reachable from add_block (termination clause).",
 "C05": " Round 6: C05.density-verdict - no possibly-true density verdict is returned without the ancestor walk (walker and every wrapper up to the gate).",
 "C06": " Round 6: C06.leaf-fresh (Block::generate -> Transaction::generate -> generate_hash_for_signature -> store, on every path and for every transaction) and C06.leaf-from-content (a transaction whose leaf is read from its signature bytes, type SPV, is never accepted by Transaction::validate; genuine defect repaired in /repo ddcc959).",
 "C07": " Round 6: header fields the producer recomputes itself (total_fees) are rewritten through the fields it filled from the consensus values and compared with the generator's definition; producer assignments inside private Block helpers are followed.",
 "C08": " Round 6: C08.routing-path|type-bypass - every non-exempt transaction type reaches validate_routing_path on accepting paths of Transaction::validate.",
 "C11": " Round 6: C11.reject-leaves-pool - nothing reachable from add_block_failure removes pooled transactions or releases reservations; cross-lists C20.read-reentry.",
 "C13": " Round 6: C13.window-block-on-disk - the disk write in add_block_success depends on node/block kind only, never on chain membership at arrival time.",
 "C14": " Round 6: C14.refused-block-restored - add_block_failure cannot finish, once it holds the refused block, without add_block_transactions_back.",
 "C17": " Round 6: the key argument of the challenge verification must be the response's key itself (the one then recorded), not a value computed from it.",
 "C19": " Round 6: C19.slip-cap - add_from_slip/add_to_slip stop at the count Transaction::validate still accepts.",
 "C20": " Round 6: C20.read-reentry - a read guard of a class the program also write-acquires is not re-read while live (tokio's fair RwLock queues the second read behind a waiting writer), unless serialised by the gate.",
}
for _k, _v in ROUND6.items():
    CHECKS[_k]["text"] += _v
ROUND7 = {
 "C01": " Round 7: BlockStake is no longer treated as a privileged type (it was an exemption copied from the code, and hid a genuine defect); C01.input-owner - every value-carrying input carries the key the signature was verified against; C01.stake-input-lookup; C01.scan-exemptions admits amount == 0 only (Bound exemption was a genuine defect).",
 "C02": " Round 7: the inflation gate applies to staking transactions as well; cross-lists C13.window-block-on-disk.",
 "C03": " Round 7: replacing a stored Block wholesale counts as a write of in_longest_chain (index-owner); C03.ring-positions - ring slots are computed from the ring size, never from genesis_period.",
 "C04": " Round 7: C04.insert-is-additive - nothing reachable from BlockRing::add_block removes index entries or moves a marker.",
 "C05": " Round 7: C05.first-block-shortcut - BlockRing.empty is true only in the constructor.",
 "C06": " Round 7: C06.tx-hash-coverage - the transaction hash covers every input and output (no thinning adaptor) and, for an input, every component of the UTXO key it spends (two known findings: block_id / tx_ordinal are not signed).",
 "C08": " Round 7: C08.work-misordered - ordinary work amounts only behind parent timestamp < own timestamp; staking transactions are not exempt from the routing-path check.",
 "C09": " Round 7: C09.dispatch-guards - a length guard in a Message::deserialize arm accepts the shortest encoding the payload's writer produces.",
 "C10": " Round 7: C10.signature findings are keyed by decoder (no obligation count in the key).",
 "C11": " Round 7: C11.fetch-quota - every transition to Fetching takes one unit of the per-peer quota in the same iteration.",
 "C13": " Round 7: cross-lists C03.ring-positions.",
 "C14": " Round 7: C14.pool-types - the pool's admission point cannot insert Fee / ATR / SPV (Issuance once the chain has a block), decided per type with the branch conditions evaluated for that type (genuine defect repaired); cross-lists C01.utxo-lookup.",
 "C17": " Round 7: cross-lists the C09 decoder rules for the handshake messages.",
 "C19": " Round 7: closures act for the body that defines them; cross-lists C03.lockstep (wallet view).",
}
for _k, _v in ROUND7.items():
    CHECKS[_k]["text"] += _v
ROUND8 = {
 "C02": " Audit round: C02.bound-outputs-constrained (both NFT branches scan to[3..] for slip types); C02.fee-counted - the fee of every user-signed type reaches total_fees_new (decided per type); cross-lists C13.fee-deducted.",
 "C03": " Audit round: C03.purge-on-chain-only - the purge erases outputs only for blocks flagged in_longest_chain.",
 "C05": " Audit round: C05.height-follows-parent - a block whose parent is known is accepted only with id == parent id + 1; C05.density-anchor now requires the density rule for every block of the new chain.",
 "C06": " Audit round: known finding C06.tx-hash-coverage|leaf|path (the merkle leaf does not cover routing paths).",
 "C08": " Audit round: C08.unrouted-types-no-work - block-made types (ATR, Fee, Issuance, SPV), whose paths are never verified, get no routing work.",
 "C11": " Audit round: C11.ghost-chain-gate (add_ghost_block only behind the sender's verified key and lite-node mode); C11.pre-handshake now resolves temporaries holding a copy of the key field (it was blind to Copy fields); C11.peer-assert - no assert!/assert_eq! in a handler-reachable body compares a field of a wire message.",
 "C13": " Audit round: C13.fee-deducted - a rebroadcast fee booked into total_fees_atr flows into the rebroadcast transaction's outputs.",
 "C14": " Audit round: C14.bundle-no-assert (bundle_block answers 'cannot bundle' with None, never with an assertion) and C14.sweep-window (the pool sweep applies the retention-window test).",
 "C17": " Audit round: cross-lists C11.peer-assert for the handshake handlers.",
 "C19": " Audit round: C19.ordinal also decides that an input given back on unwind returns under its own (block_id, tx_ordinal).",
}
for _k, _v in ROUND8.items():
    CHECKS[_k]["text"] += _v
PENDING = "check not built yet in this round (planned in DESIGN.md §4); not claimed until it lands"

def main():
    props = [json.loads(l) for l in open(os.path.join(VERIF, "properties.jsonl"))]
    checks = []
    na = []
    for p in props:
        pid = p["id"]
        if pid in CHECKS and os.path.exists(os.path.join(VERIF, "analysis", "rules", pid.lower() + ".py")):
            c = CHECKS[pid]
            checks.append({
                "property_id": pid,
                "quick_cmd": "./check %s --tier quick" % pid,
                "thorough_cmd": "./check %s --tier thorough" % pid,
                "evidence_file": "/verif/evidence/%s.json" % pid,
                "replay_cmd_template": "./check %s --explain {path}" % pid,
                "engine": "saitolint",
                "level_claimed": {"category": c["level"], "text": c["text"], "design_ref": "DESIGN.md §4 " + pid},
                "level_note": c["note"],
                "technique": c["technique"],
            })
        else:
            na.append({"property_id": pid, "reason": NA.get(pid, PENDING)})
    fixes = []
    try:
        import subprocess
        out = subprocess.check_output(["git", "-C", "/repo", "log", "--format=%h %s"], text=True)
        fixes = [l.split()[0] for l in out.splitlines() if l.split(" ", 1)[1].startswith("fix:")]
    except Exception:
        pass
    m = {
        "version": 1,
        "setup_cmd": "cd /verif && python3 -c 'import sys; sys.path.insert(0,\".\"); from analysis import extract; extract.build_driver(); extract.get_facts(\"workspace\")'",
        "hooks": {
            "guard": "saitotech_saito_rust_workspace_verif",
            "enable": "none needed: the checks execute no repository code, so no hooks or instrumentation are compiled in; the guard is nominal",
            "baseline_off_cmd": "/verif/tools/baseline.sh /repo",
            "source_commits": [],
            "add_only": True,
        },
        "engines": [{"name": "saitolint", "path": "/verif/check", "serves_properties": [c["property_id"] for c in checks],
                     "kind_free_text": "static analysis: a rustc_private driver dumps type-checked MIR (pre-borrowck) of every body of the four workspace crates as JSON facts on every run; repository-specific rules in Python decide each property (or a named structural clause) over CFGs, the resolved call graph and dataflow"}],
        "checks": checks,
        "notes": "Unguarded 'fix:' commits in /repo (genuine defects repaired, see known_findings.json): " + ", ".join(fixes),
        "not_applicable": na,
    }
    json.dump(m, open(os.path.join(VERIF, "MANIFEST.json"), "w"), indent=1)
    print("checks:", [c["property_id"] for c in checks], "n/a:", len(na))

if __name__ == "__main__":
    main()
