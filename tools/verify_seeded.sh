#!/bin/bash
# usage: tools/verify_seeded.sh <ID> [dir with patch.diff demo.diff meta.json]
# confirms a seeded change: demo passes on HEAD, fails with the patch; baseline suite still passes with the patch; then runs all checks on it
ID=$1; SRC=${2:-/tmp/seed_out/$ID}
WT=/tmp/vs_$ID
git -C /repo worktree remove --force $WT 2>/dev/null; git -C /repo worktree prune
git -C /repo worktree add -q $WT HEAD || exit 2
cd $WT
TEST=$(python3 -c "import json;print(json.load(open('$SRC/meta.json'))['demo_test'].split('::')[-1])")
git apply $SRC/demo.diff || { echo "demo.diff does not apply"; exit 2; }
echo "--- demo on unmodified code ($TEST)"
CARGO_NET_OFFLINE=true cargo nextest run --workspace --offline --no-fail-fast -j 4 -- $TEST 2>&1 | grep -E "^\s+(PASS|FAIL|TIMEOUT) |Summary \[" | head -4
git apply $SRC/patch.diff || { echo "patch.diff does not apply"; exit 2; }
echo "--- demo with the change"
CARGO_NET_OFFLINE=true cargo nextest run --workspace --offline --no-fail-fast -j 4 -- $TEST 2>&1 | grep -E "^\s+(PASS|FAIL|TIMEOUT) |Summary \[" | head -4
echo "--- baseline suite with the change"
/verif/tools/baseline.sh $WT 2>&1 | tail -3
echo "--- checks on the change (code change only)"
git checkout -q -- . ; git apply $SRC/patch.diff
python3 /verif/tools/check_variant.py $WT 2>&1 | grep -v "^\[saitolint\]"
cd /; git -C /repo worktree remove --force $WT; git -C /repo worktree prune
