#!/opt/veriftools/pyvenv/bin/python
"""Validate MANIFEST.json and every evidence file against the schemas in /root/.vp."""
import glob, json, sys
import jsonschema
ok = True
m = json.load(open('/verif/MANIFEST.json'))
try:
    jsonschema.validate(m, json.load(open('/root/.vp/MANIFEST.schema.json')))
    print("MANIFEST ok: %d checks, %d not_applicable" % (len(m['checks']), len(m.get('not_applicable', []))))
except Exception as e:
    ok = False; print("MANIFEST INVALID:", e)
props = [json.loads(l)['id'] for l in open('/verif/properties.jsonl')]
claimed = [c['property_id'] for c in m['checks']]
na = [n['property_id'] for n in m.get('not_applicable', [])]
for p in props:
    if (p in claimed) == (p in na):
        ok = False; print("property %s must be in exactly one of checks / not_applicable" % p)
es = json.load(open('/root/.vp/EVIDENCE.schema.json'))
for c in m['checks']:
    f = c['evidence_file']
    try:
        e = json.load(open(f))
        jsonschema.validate(e, es)
        assert e['level'] == c['level_claimed']['category'], "level mismatch"
        if e['level'] == 'proof':
            assert e['coverage']['obligations'] == e['coverage']['discharged'], "proof: obligations != discharged"
        print("evidence ok:", f, e['level'], e['tier'], 'violations', e.get('violations'))
    except Exception as ex:
        ok = False; print("EVIDENCE INVALID:", f, str(ex)[:300])
sys.exit(0 if ok else 1)
