#!/usr/bin/env python3
"""Run rule modules against a scratch copy of the repository (a seeded change applied) without touching evidence.
usage: tools/check_variant.py <repo_dir> [Cxx ...]   prints, per property, the findings that are not known findings."""
import importlib, json, os, sys
VERIF = os.path.dirname(os.path.dirname(os.path.abspath(__file__)))
sys.path.insert(0, VERIF)
from analysis import extract, facts, report

def main():
    repo = sys.argv[1]
    props = sys.argv[2:] or sorted(f[:-3].upper() for f in os.listdir(os.path.join(VERIF, "analysis", "rules")) if f.startswith("c") and f.endswith(".py"))
    d, m = extract.get_facts("workspace", repo=repo, slot=os.environ.get("SLOT", "1"))
    prog = facts.Program(d, m)
    known = {k["key"] for k in report.load_known() if k.get("status", "known") == "known"}
    total = 0
    for pid in props:
        mod = importlib.import_module("analysis.rules.%s" % pid.lower())
        try:
            res = mod.run(prog, "quick", {})
            report.make_keys(res.findings)
            try:
                res.check_floors()
                floor = None
            except report.CheckError as e:
                floor = str(e)
        except Exception as e:
            print("%s: RULE ERROR %s: %s" % (pid, type(e).__name__, str(e)[:200]))
            total += 1
            continue
        new = [f for f in res.findings if f.key not in known]
        if floor:
            print("%s: CHECK-ERROR %s" % (pid, floor[:200]))
            total += 1
        for f in new:
            print("%s: VIOLATION %s @ %s :: %s" % (pid, f.key[:110], f.loc, f.what[:160]))
            total += 1
    print("== %d report(s) on %s" % (total, repo))
    import shutil
    shutil.rmtree(d, ignore_errors=True)

if __name__ == "__main__":
    main()
