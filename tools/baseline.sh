#!/bin/bash
# Runs the repository's own test suite (no hooks exist, so this is "guard off") and compares the
# result with the stable baseline in /root/.vp/BASELINE.json.
# usage: tools/baseline.sh [repo-dir]   -> prints baseline tests that did not pass; exit 0 iff all pass
REPO=${1:-/repo}
cd "$REPO" || exit 2
rm -f target/nextest/pb/junit.xml
CARGO_NET_OFFLINE=true cargo nextest run --workspace --no-fail-fast --tool-config-file pb:/w/lib/nextest.toml --profile pb --test-threads 8 --offline > /dev/null 2>&1
python3 - "${CARGO_TARGET_DIR:-target}/nextest/pb/junit.xml" <<'PY'
import json,sys
import xml.etree.ElementTree as ET
base=json.load(open('/root/.vp/BASELINE.json'))['stable_pass']
try:
    root=ET.parse(sys.argv[1]).getroot()
except Exception as e:
    print("no junit output:",e); sys.exit(2)
passed=set()
for tc in root.iter('testcase'):
    ok=not any(ch.tag in ('failure','error') for ch in tc)
    if ok: passed.add("%s::%s"%(tc.get('classname'),tc.get('name')))
missing=[t for t in base if t not in passed]
# the suite shares on-disk state between tests and is flaky when run in parallel (a different single
# test fails on most runs of the pristine tree too): re-run each non-passing test alone, serially
import subprocess
still=[]
for t in missing:
    crate,name=t.split("::",1)
    ok=False
    for attempt in range(2):
        r=subprocess.run(["cargo","nextest","run","-p",crate,"--offline","--no-fail-fast","--test-threads","1","--",
                          "--exact",name],stdout=subprocess.PIPE,stderr=subprocess.STDOUT,text=True)
        if r.returncode==0 and "1 passed" in r.stdout:
            ok=True; break
    if ok: print("passed when re-run alone (parallel-run flake):",t)
    else: still.append(t)
missing=still
print("baseline tests passing: %d/%d"%(len(base)-len(missing),len(base)))
for t in missing: print("NOT PASSING:",t)
sys.exit(1 if missing else 0)
PY
