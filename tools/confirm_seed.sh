#!/bin/bash
# usage: tools/confirm_seed.sh <ID>: demo both ways, baseline with the change, all checks on the change
ID=$1; SRC=${SEEDROOT:-/tmp/seed_out}/$ID; WT=/tmp/vs_demo
/verif/tools/run_demo.sh $ID 2>&1 | cut -c1-220
cd $WT && git checkout -q -- . && git clean -fdq -e target && git apply $SRC/patch.diff
echo "[$ID] baseline with the change:"; /verif/tools/baseline.sh $WT 2>&1 | tail -2
echo "[$ID] checks on the change:"; SLOT=3 python3 /verif/tools/check_variant.py $WT 2>&1 | grep -v "^\[saitolint\]" | cut -c1-200
git checkout -q -- . ; git clean -fdq -e target
