#!/usr/bin/env python3
"""rewrites the table between <!-- SEEDED-TABLE-BEGIN --> and <!-- SEEDED-TABLE-END --> in DESIGN.md from seeded/*/meta.json"""
import glob, json, os, re
V = os.path.dirname(os.path.dirname(os.path.abspath(__file__)))
rows = []
for mp in sorted(glob.glob(os.path.join(V, "seeded", "*", "meta.json"))):
    m = json.load(open(mp))
    name = os.path.basename(os.path.dirname(mp))
    summ = re.sub(r"\s+", " ", m.get("summary", ""))[:230].replace("|", "/")
    needs = re.sub(r"\s+", " ", m.get("needs_to_manifest", ""))[:150].replace("|", "/")
    rows.append("| %s | %s | %s | %s | %s |" % (m["property"], name, summ, m.get("detected_by", "-").replace("|", "/"), m.get("first_run", "?")))
table = "| property | seeded change (seeded/<dir>) | what it does | reported by | first run |\n|---|---|---|---|---|\n" + "\n".join(rows)
d = open(os.path.join(V, "DESIGN.md")).read()
a, b = "<!-- SEEDED-TABLE-BEGIN -->", "<!-- SEEDED-TABLE-END -->"
if a in d:
    d = d[: d.index(a) + len(a)] + "\n" + table + "\n" + d[d.index(b):]
    open(os.path.join(V, "DESIGN.md"), "w").write(d)
    print("table rewritten with %d rows" % len(rows))
else:
    print("markers not found")
