#!/usr/bin/env python3
"""(Re)generates /verif/mutants/*.diff from /repo's current sources.
Each entry: (name, file, old, new).  Names `Cxx-eq-*` are behaviour-preserving edits that must stay silent;
all others break exactly one rule instance while still compiling."""
import difflib, os, sys
REPO = "/repo"
OUT = os.path.join(os.path.dirname(os.path.dirname(os.path.abspath(__file__))), "mutants")
C = "saito-core/src/core/"
M = [
 # ---------------- C01
 ("C01-tx-verdict-ignored", C + "consensus/block.rs",
  "            if !valid_tx {\n                return false;\n            }\n", "            if !valid_tx {\n                error!(\"invalid transaction in block\");\n            }\n"),
 ("C01-pool-accepts-unvalidated", C + "consensus/mempool.rs",
  "        if tx_valid {\n            self.add_transaction(transaction).await;", "        if tx_valid || transaction.timestamp == 0 {\n            self.add_transaction(transaction).await;"),
 ("C01-eq-match-instead-of-if", C + "consensus/block.rs",
  "            if !valid_tx {\n                return false;\n            }\n", "            match valid_tx {\n                false => return false,\n                true => {}\n            }\n"),
 # ---------------- C02
 ("C02-wrapping-sum", C + "consensus/transaction.rs",
  "        self.cumulative_fees = cumulative_fees.saturating_add(self.total_fees);", "        self.cumulative_fees = cumulative_fees + self.total_fees;"),
 ("C02-inflation-gate-logged-only", C + "consensus/transaction.rs",
  "                error!(\"ERROR 802394: transaction spends more than it has available\");\n                return false;", "                error!(\"ERROR 802394: transaction spends more than it has available\");"),
 # ---------------- C03
 ("C03-unwind-skips-blockring", C + "consensus/blockchain.rs",
  "            // blockring update\n            self.blockring\n                .on_chain_reorganization(block.id, block.hash, false);\n", "            // blockring update\n"),
 ("C03-wind-wallet-wrong-direction", C + "consensus/blockchain.rs",
  "                wallet_updated |= wallet.on_chain_reorganization(\n                    block,\n                    true,", "                wallet_updated |= wallet.on_chain_reorganization(\n                    block,\n                    false,"),
 # ---------------- C04
 ("C04-failed-block-stays-stored", C + "consensus/blockchain.rs",
  "                self.blocks.get_mut(&block_hash).unwrap().in_longest_chain = false;\n                self.add_block_failure(&block_hash, mempool).await;\n                AddBlockResult::FailedNotValid",
  "                self.blocks.get_mut(&block_hash).unwrap().in_longest_chain = false;\n                mempool.delete_block(&block_hash);\n                AddBlockResult::FailedNotValid"),
 # ---------------- C05
 ("C05-equal-length-chain-wins", C + "consensus/blockchain.rs",
  "        old_chain.len() < new_chain.len() && old_bf <= new_bf", "        old_chain.len() <= new_chain.len() && old_bf <= new_bf"),
 ("C05-eq-flipped-orientation", C + "consensus/blockchain.rs",
  "        old_chain.len() < new_chain.len() && old_bf <= new_bf", "        new_chain.len() > old_chain.len() && new_bf >= old_bf"),
 # ---------------- C06
 ("C06-merkle-only-when-zero", C + "consensus/block.rs",
  "        if self.merkle_root\n            != self.generate_merkle_root(configs.is_browser(), configs.is_spv_mode())\n        {", "        if self.merkle_root == [0; 32]\n            && self.merkle_root\n                != self.generate_merkle_root(configs.is_browser(), configs.is_spv_mode())\n        {"),
 ("C06-creator-signature-logged-only", C + "consensus/block.rs",
  "            error!(\"ERROR 582039: block is not signed by creator or signature does not validate\",);\n            return false;", "            error!(\"ERROR 582039: block is not signed by creator or signature does not validate\",);"),
 ("C06-eq-root-in-local", C + "consensus/block.rs",
  "        if self.merkle_root\n            != self.generate_merkle_root(configs.is_browser(), configs.is_spv_mode())\n        {", "        let recomputed_root =\n            self.generate_merkle_root(configs.is_browser(), configs.is_spv_mode());\n        if recomputed_root != self.merkle_root {"),
 # ---------------- C08
 ("C08-insufficient-work-logged-only", C + "consensus/block.rs",
  "expected : {:?}\",self.total_work, amount_of_routing_work_needed);\n                return false;", "expected : {:?}\",self.total_work, amount_of_routing_work_needed);"),
 ("C08-ticket-checked-against-own-difficulty", C + "consensus/block.rs",
  "                if !gt.validate(previous_block.difficulty) {", "                if !gt.validate(self.difficulty) {"),
 # ---------------- C09
 ("C09-size-predictor-wrong-hop-size", C + "consensus/transaction.rs",
  "            + (HOP_SIZE * self.path.len())", "            + (SLIP_SIZE * self.path.len())"),
 # ---------------- C10
 ("C10-tx-length-check-dropped", C + "consensus/transaction.rs",
  "        if bytes.len() < end_of_path {\n            // the buffer is shorter than the lengths declared in its header\n            return Err(Error::from(ErrorKind::InvalidData));\n        }\n", ""),
 ("C10-slip-length-check-weakened", C + "consensus/slip.rs",
  "        if bytes.len() != SLIP_SIZE {", "        if bytes.len() < 49 {"),
 ("C10-eq-flipped-length-test", C + "consensus/transaction.rs",
  "        if bytes.len() < end_of_path {", "        if end_of_path > bytes.len() {"),
 # ---------------- C11
 ("C11-block-message-unreachable", C + "routing_thread.rs",
  "                warn!(\n                    \"ignoring unexpected block message from peer : {:?}\",\n                    peer_index\n                );", "                error!(\"received block message from peer : {:?}\", peer_index);\n                unreachable!();"),
 ("C11-key-list-unwrapped", C + "routing_thread.rs",
  "                if let Err(e) = self\n                    .network\n                    .handle_received_key_list(peer_index, key_list)\n                    .await\n                {\n                    warn!(\n                        \"key list from peer : {:?} was not accepted : {:?}\",\n                        peer_index, e\n                    );\n                }",
  "                self.network\n                    .handle_received_key_list(peer_index, key_list)\n                    .await\n                    .unwrap();"),
 # ---------------- C13
 ("C13-rebroadcast-hash-logged-only", C + "consensus/block.rs",
  "cv.rebroadcast_hash.to_hex(), self.rebroadcast_hash.to_hex());\n            return false;", "cv.rebroadcast_hash.to_hex(), self.rebroadcast_hash.to_hex());"),
 # ---------------- C14
 ("C14-stale-reservation", C + "consensus/mempool.rs",
  "            } else if let Some(removed) = self.transactions.remove(&transaction.signature) {\n                // release the inputs reserved by the removed transaction\n                for input in removed.from.iter() {\n                    self.utxo_map.remove(&input.utxoset_key);\n                }\n            }",
  "            } else {\n                self.transactions.remove(&transaction.signature);\n            }"),
 ("C14-eq-match-form", C + "consensus/mempool.rs",
  "            } else if let Some(removed) = self.transactions.remove(&transaction.signature) {\n                // release the inputs reserved by the removed transaction\n                for input in removed.from.iter() {\n                    self.utxo_map.remove(&input.utxoset_key);\n                }\n            }",
  "            } else {\n                match self.transactions.remove(&transaction.signature) {\n                    Some(removed) => {\n                        for input in removed.from.iter() {\n                            self.utxo_map.remove(&input.utxoset_key);\n                        }\n                    }\n                    None => {}\n                }\n            }"),
 # ---------------- C18
 ("C18-lite-header-field-mixed-up", C + "consensus/block.rs",
  "        block.treasury = self.treasury;\n        block.signature = self.signature;", "        block.treasury = self.graveyard;\n        block.signature = self.signature;"),
 ("C18-lite-drops-output-match", C + "consensus/block.rs",
  "                    || tx.to.iter().any(|slip| keylist.contains(&slip.public_key))\n                    || tx.is_golden_ticket()", "                    || tx.is_golden_ticket()"),
 # ---------------- C19
 ("C19-delete-slip-keeps-balance", C + "consensus/wallet.rs",
  "            if in_unspent_list {\n                self.available_balance -= removed_slip.amount;\n            } else {", "            if in_unspent_list {\n            } else {"),
 ("C19-eq-reordered", C + "consensus/wallet.rs",
  "            self.available_balance += slip.amount;\n            self.unspent_slips.insert(wallet_slip.utxokey);", "            self.unspent_slips.insert(wallet_slip.utxokey);\n            self.available_balance += slip.amount;"),
 # ---------------- C20
 ("C20-peers-held-across-sync-request", C + "io/network.rs",
  "        // release the peers lock before taking configs and blockchain (lock order : configs -> blockchain -> peers)\n        drop(peers);\n", ""),
 ("C20-configs-under-peers", C + "routing_thread.rs",
  "            let peers = self.network.peer_lock.read().await;\n            let peer = peers.find_peer_by_index(peer_index);\n            if peer.is_none() || peer.unwrap().public_key.is_none() {",
  "            let peers = self.network.peer_lock.read().await;\n            let _configs = self.network.config_lock.read().await;\n            let peer = peers.find_peer_by_index(peer_index);\n            if peer.is_none() || peer.unwrap().public_key.is_none() {"),
 ("C20-eq-drop-order-swapped", C + "io/network.rs",
  "        drop(blockchain);\n        drop(configs);", "        drop(configs);\n        drop(blockchain);"),
 # ---------------- more behaviour-preserving edits (must stay silent)
 ("C14-eq-work-recomputed-by-sum", C + "consensus/mempool.rs",
  "        self.routing_work_in_mempool = 0;\n\n        // add routing work from remaining tx\n        for (_, transaction) in &self.transactions {\n            self.routing_work_in_mempool += transaction.total_work_for_me;\n        }",
  "        // routing work of the remaining transactions\n        self.routing_work_in_mempool = self\n            .transactions\n            .values()\n            .fold(0, |work, transaction| work.saturating_add(transaction.total_work_for_me));"),
 ("C01-eq-set-insert-result", C + "consensus/block.rs",
  "                    if new_slips_map.contains_key(&utxo_key) {",
  "                    if new_slips_map.get(&utxo_key).is_some() || new_slips_map.contains_key(&utxo_key) {"),
 ("C05-eq-tip-via-first", C + "consensus/blockchain.rs",
  "            let block = self.blocks.get(new_chain[0].as_ref()).unwrap();\n            previous_block_hash = block.previous_block_hash;",
  "            let block = self.blocks.get(new_chain.first().unwrap().as_ref()).unwrap();\n            previous_block_hash = block.previous_block_hash;"),
 ("C10-eq-slip-length-two-sided", C + "consensus/slip.rs",
  "        if bytes.len() != SLIP_SIZE {", "        if bytes.len() < SLIP_SIZE || bytes.len() > SLIP_SIZE {"),
 ("C11-eq-let-else-guards", C + "routing_thread.rs",
  "            let peer = peers.find_peer_by_index(peer_index);\n            if peer.is_none() || peer.unwrap().public_key.is_none() {\n                // the peer is unknown or has not completed the handshake yet\n                warn!(\n                    \"ignoring ghost chain request from peer : {:?} without a verified key\",\n                    peer_index\n                );\n                return;\n            }\n            let peer = peer.unwrap();\n            peer_key_list.push(peer.public_key.unwrap());",
  "            let Some(peer) = peers.find_peer_by_index(peer_index) else {\n                warn!(\"ignoring ghost chain request from unknown peer : {:?}\", peer_index);\n                return;\n            };\n            let Some(peer_public_key) = peer.public_key else {\n                warn!(\"ignoring ghost chain request from peer : {:?} without a verified key\", peer_index);\n                return;\n            };\n            peer_key_list.push(peer_public_key);"),
 ("C17-eq-compare-with-false", C + "consensus/peers/peer.rs",
  "        let result = verify(&sent_challenge, &response.signature, &response.public_key);\n        if !result {", "        let signature_ok = verify(&sent_challenge, &response.signature, &response.public_key);\n        if signature_ok == false {"),
 ("C08-eq-flipped-work-test", C + "consensus/block.rs",
  "            if self.total_work < amount_of_routing_work_needed {", "            if amount_of_routing_work_needed > self.total_work {"),
 ("C13-eq-nested-ifs", C + "consensus/block.rs",
  "        if validate_against_utxo && cv.total_rebroadcast_slips != self.total_rebroadcast_slips {", "        if validate_against_utxo && !(cv.total_rebroadcast_slips == self.total_rebroadcast_slips) {"),
 ("C02-eq-explicit-checked-loop", C + "consensus/transaction.rs",
  "        self.cumulative_fees = cumulative_fees.saturating_add(self.total_fees);", "        self.cumulative_fees = cumulative_fees\n            .checked_add(self.total_fees)\n            .unwrap_or(Currency::MAX);"),
 ("C07-eq-through-local", C + "consensus/block.rs",
  "        block.avg_payout_mining = cv.avg_payout_mining;", "        let avg_payout_mining = cv.avg_payout_mining;\n        block.avg_payout_mining = avg_payout_mining;"),
 ("C04-eq-undo-before-flag-reset", C + "consensus/blockchain.rs",
  "                self.blocks.get_mut(&block_hash).unwrap().in_longest_chain = false;\n                self.add_block_failure(&block_hash, mempool).await;\n                AddBlockResult::FailedNotValid",
  "                self.add_block_failure(&block_hash, mempool).await;\n                AddBlockResult::FailedNotValid"),
 ("C03-eq-wallet-after-utxo", C + "consensus/blockchain.rs",
  "            {\n                let mut wallet = self.wallet_lock.write().await;\n\n                wallet_updated |= wallet.on_chain_reorganization(\n                    block,\n                    true,\n                    configs.get_consensus_config().unwrap().genesis_period,\n                );\n            }\n            let block_id = block.id;",
  "            let block_id = block.id;\n            {\n                let mut wallet = self.wallet_lock.write().await;\n\n                wallet_updated |= wallet.on_chain_reorganization(\n                    block,\n                    true,\n                    configs.get_consensus_config().unwrap().genesis_period,\n                );\n            }"),
 ("C09-eq-reads-reordered", C + "consensus/block.rs",
  "        let graveyard: Currency = Currency::from_be_bytes(bytes[181..189].try_into().unwrap());\n        let treasury: Currency = Currency::from_be_bytes(bytes[189..197].try_into().unwrap());",
  "        let treasury: Currency = Currency::from_be_bytes(bytes[189..197].try_into().unwrap());\n        let graveyard: Currency = Currency::from_be_bytes(bytes[181..189].try_into().unwrap());"),
 ("C20-eq-configs-guard-dropped-early", C + "io/network.rs",
  "        drop(blockchain);\n        drop(configs);", "        drop(configs);\n        drop(blockchain);\n        tokio::task::yield_now().await;"),
 # ---------------- round 3
 ("C13-eq-count-by-filter", C + "consensus/block.rs",
  "                    for slip in transaction.to.iter() {\n                        if matches!(slip.slip_type, SlipType::ATR) {\n                            self.total_rebroadcast_slips += 1;\n                            // deprecated\n                            //self.total_rebroadcast_nolan += slip.amount;\n                        }\n                    }\n",
  "                    self.total_rebroadcast_slips += transaction\n                        .to\n                        .iter()\n                        .filter(|slip| slip.slip_type == SlipType::ATR)\n                        .count() as u64;\n"),
 ("C13-count-all-outputs", C + "consensus/block.rs",
  "                        if matches!(slip.slip_type, SlipType::ATR) {\n                            self.total_rebroadcast_slips += 1;", "                        if !matches!(slip.slip_type, SlipType::Bound) {\n                            self.total_rebroadcast_slips += 1;"),
 ("C04-eq-marker-by-position", C + "consensus/ringitem.rs",
  "                if self.lc_pos == Some(i) {\n                    new_lc_pos = Some(index_loop);\n                }", "                if let Some(old_pos) = self.lc_pos {\n                    if old_pos == i {\n                        new_lc_pos = Some(index_loop);\n                    }\n                }"),
 ("C04-marker-defaults-to-first", C + "consensus/ringitem.rs",
  "        let mut new_lc_pos = None;", "        let mut new_lc_pos = if self.block_ids.len() > 1 { Some(0) } else { None };"),
 ("C17-eq-remove-then-key", C + "io/network.rs",
  "        if let Some(peer) = peers.index_to_peers.remove(&peer_index) {\n            if let Some(public_key) = peer.get_public_key() {", "        let removed = peers.index_to_peers.remove(&peer_index);\n        if let Some(peer) = removed {\n            if let Some(public_key) = peer.get_public_key() {"),
 ("C17-stun-remove-keeps-key", C + "io/network.rs",
  "                peer_public_key = public_key;\n                peers.address_to_peers.remove(&public_key);", "                peer_public_key = public_key;"),
 ("C05-eq-density-verdict-in-local", C + "consensus/blockchain.rs",
  "        if !self.is_golden_ticket_count_valid(\n            previous_block_hash,\n            has_gt,\n            configs.is_browser(),\n            configs.is_spv_mode(),\n        ) {", "        let density_ok = self.is_golden_ticket_count_valid(\n            previous_block_hash,\n            has_gt,\n            configs.is_browser(),\n            configs.is_spv_mode(),\n        );\n        if density_ok == false {"),
 ("C03-eq-flag-set-by-caller", C + "consensus/blockchain.rs",
  "                let block = self.blocks.get_mut(block_hash).unwrap();\n                block.on_chain_reorganization(&mut self.utxoset, true);", "                let block = self.blocks.get_mut(block_hash).unwrap();\n                block.on_chain_reorganization(&mut self.utxoset, true);\n                block.in_longest_chain = true;"),
 ("C11-eq-guards-merged-with-or", C + "consensus/transaction.rs",
  "                if self.from.len() < 3 {\n                    error!(\n                        \"Send bound transaction Invalid: fewer than 3 inputs, found {}.\",\n                        self.from.len()\n                    );\n                    return false;\n                }\n                //\n                // at least 3 output slips\n                //\n                if self.to.len() < 3 {\n                    error!(\n                        \"Send-bound transaction Invalid: fewer than 3 outputs, found {}.\",\n                        self.to.len()\n                    );\n                    return false;\n                }\n",
  "                let enough_slips = self.from.len() >= 3 && self.to.len() >= 3;\n                if !enough_slips {\n                    error!(\n                        \"Send bound transaction Invalid: fewer than 3 inputs or outputs, found {} / {}.\",\n                        self.from.len(),\n                        self.to.len()\n                    );\n                    return false;\n                }\n"),
 ("C06-verify-block-either-matches", C + "verification_thread.rs",
  "        if block.id != block_id || block.hash != block_hash {", "        if block.id != block_id && block.hash != block_hash {"),
 ("C07-fee-tx-only-with-mining-payout", C + "consensus/block.rs",
  "        if cv.fee_transaction.is_some() {\n            let mut fee_tx = cv.fee_transaction.unwrap();", "        if cv.fee_transaction.is_some() && cv.total_payout_mining > 0 {\n            let mut fee_tx = cv.fee_transaction.unwrap();"),
 ("C02-fee-tx-count-not-checked", C + "consensus/block.rs",
  "                    Some(ft_index) if cv.ft_num == 1 => ft_index,", "                    Some(ft_index) => ft_index,"),
 ("C19-err-after-reservation", C + "consensus/transaction.rs",
  "            for input in input_slips {\n                transaction.add_from_slip(input);\n            }\n            for output in output_slips {",
  "            if input_slips.is_empty() {\n                return Err(Error::from(ErrorKind::NotFound));\n            }\n            for input in input_slips {\n                transaction.add_from_slip(input);\n            }\n            for output in output_slips {"),
 ("C09-header-hash-fields-swapped", C + "msg/message.rs",
  "                [block_hash.as_slice(), block_id.to_be_bytes().as_slice()].concat()", "                [block_id.to_be_bytes().as_slice(), block_hash.as_slice()].concat()"),
 ("C18-eq-ordinal-step-in-match", C + "consensus/block.rs",
  "            if let TransactionType::SPV = tx.transaction_type {\n                tx_index += tx.txs_replacements as u64;\n            } else {\n                tx_index += 1;\n            }",
  "            tx_index += match tx.transaction_type {\n                TransactionType::SPV => tx.txs_replacements as u64,\n                _ => 1,\n            };"),
 ("C06-eq-leaf-loop-with-floor", C + "consensus/merkle.rs",
  "            if tx.txs_replacements > 1 {\n                for _ in 0..tx.txs_replacements {", "            if tx.txs_replacements > 1 {\n                for _ in 0..tx.txs_replacements.max(2) {"),
 ("C06-leaf-loop-may-run-zero-times", C + "consensus/merkle.rs",
  "            if tx.txs_replacements > 1 {\n                for _ in 0..tx.txs_replacements {", "            if tx.txs_replacements != 1 {\n                for _ in 0..tx.txs_replacements {"),
 ("C11-eq-capacity-from-lengths", C + "consensus_thread.rs",
  "                self.txs_for_mempool.reserve(transactions.len());", "                let expected = transactions.len() * 2;\n                self.txs_for_mempool.reserve(expected);"),
 # ---------------- round 6
 ("C01-ledger-check-half-period", C + "consensus/blockchain.rs",
  "                .get_longest_chain_block_hash_at_block_id(latest_block_id - genesis_period);", "                .get_longest_chain_block_hash_at_block_id(latest_block_id - genesis_period / 2);"),
 ("C01-eq-ledger-check-named-id", C + "consensus/blockchain.rs",
  "            let result = self\n                .blockring\n                .get_longest_chain_block_hash_at_block_id(latest_block_id - genesis_period);\n            has_genesis_period_of_blocks = result.is_some();",
  "            let oldest_needed_id = latest_block_id - genesis_period;\n            has_genesis_period_of_blocks = self\n                .blockring\n                .get_longest_chain_block_hash_at_block_id(oldest_needed_id)\n                .is_some();"),
 ("C05-density-bypass-when-parent-on-chain", C + "consensus/blockchain.rs",
  "    ) -> bool {\n        is_golden_ticket_count_valid_(\n            previous_block_hash,",
  "    ) -> bool {\n        if self.blocks.get(&previous_block_hash).is_some_and(|b| b.in_longest_chain) {\n            return true;\n        }\n        is_golden_ticket_count_valid_(\n            previous_block_hash,"),
 ("C05-eq-density-wrapper-named-bypass", C + "consensus/blockchain.rs",
  "        is_golden_ticket_count_valid_(\n            previous_block_hash,\n            current_block_has_golden_ticket,\n            is_browser || is_spv,\n            |hash| self.get_block_sync(&hash),\n        )",
  "        let bypass = is_browser || is_spv;\n        let verdict = is_golden_ticket_count_valid_(\n            previous_block_hash,\n            current_block_has_golden_ticket,\n            bypass,\n            |hash| self.get_block_sync(&hash),\n        );\n        verdict"),
 ("C05-density-true-before-walk", C + "consensus/blockchain.rs",
  "    let mut latest_block_hash = previous_block_hash;\n\n    for _ in 0..MIN_GOLDEN_TICKETS_DENOMINATOR - 1 {",
  "    let mut latest_block_hash = previous_block_hash;\n\n    if current_block_has_golden_ticket && bypass {\n        return true;\n    }\n    for _ in 0..MIN_GOLDEN_TICKETS_DENOMINATOR - 1 {"),
 ("C06-spv-accepted-again", C + "consensus/transaction.rs",
  "            error!(\"ERROR: SPV transaction cannot be part of a full block or the mempool\");\n            return false;",
  "            error!(\"ERROR: SPV transaction cannot be part of a full block or the mempool\");\n            return self.total_fees == 0;"),
 ("C06-hash-store-only-when-none", C + "consensus/transaction.rs",
  "        } else {\n            self.hash_for_signature = Some(hash(&self.serialize_for_signature()));\n        }",
  "        } else if self.hash_for_signature.is_none() {\n            self.hash_for_signature = Some(hash(&self.serialize_for_signature()));\n        }"),
 ("C06-eq-hash-via-local", C + "consensus/transaction.rs",
  "        } else {\n            self.hash_for_signature = Some(hash(&self.serialize_for_signature()));\n        }",
  "        } else {\n            let content_hash = hash(&self.serialize_for_signature());\n            self.hash_for_signature = Some(content_hash);\n        }"),
 ("C06-block-generate-skips-hashed-transactions", C + "consensus/block.rs",
  "        for tx in self.transactions.iter_mut() {\n            tx.generate(creator_public_key, tx_index, self.id);\n            if let TransactionType::SPV",
  "        for tx in self.transactions.iter_mut() {\n            if tx.hash_for_signature.is_none() {\n                tx.generate(creator_public_key, tx_index, self.id);\n            }\n            if let TransactionType::SPV"),
 ("C07-total-fees-new-only", C + "consensus/block.rs",
  "        block.total_fees = block.total_fees_new + block.total_fees_atr;", "        block.total_fees = block.total_fees_new;"),
 ("C07-eq-total-fees-from-cv-parts", C + "consensus/block.rs",
  "        block.total_fees = block.total_fees_new + block.total_fees_atr;", "        block.total_fees = cv.total_fees_atr + cv.total_fees_new;"),
 ("C07-eq-total-fees-from-cv", C + "consensus/block.rs",
  "        block.total_fees = block.total_fees_new + block.total_fees_atr;", "        block.total_fees = cv.total_fees;"),
 ("C08-routing-path-skipped-for-golden-tickets", C + "consensus/transaction.rs",
  "            if !self.validate_routing_path() {", "            if self.transaction_type != TransactionType::GoldenTicket && !self.validate_routing_path() {"),
 ("C03-new-chain-from-ring", C + "consensus/blockchain.rs",
  "                new_chain.push(new_chain_hash);\n                new_chain_hash = block.previous_block_hash;",
  "                new_chain.push(new_chain_hash);\n                new_chain_hash = self\n                    .blockring\n                    .get_block_hash_by_block_id(block.id.saturating_sub(1))\n                    .unwrap_or(block.previous_block_hash);"),
 ("C20-read-reentry-wallet-in-failure-path", C + "consensus/blockchain.rs",
  "        let public_key = {\n            let wallet = mempool.wallet_lock.read().await;\n            wallet.public_key\n        };\n        if block.creator == public_key {",
  "        let wallet = self.wallet_lock.read().await;\n        let public_key = wallet.public_key;\n        let _still_ours = self.wallet_lock.read().await.public_key == public_key;\n        if block.creator == public_key {"),
]

def main():
    os.makedirs(OUT, exist_ok=True)
    bad = 0
    for name, rel, old, new in M:
        path = os.path.join(REPO, rel)
        src = open(path).read()
        if src.count(old) != 1:
            print("STALE %-45s anchor found %d times in %s" % (name, src.count(old), rel))
            bad += 1
            continue
        dst = src.replace(old, new)
        diff = "".join(difflib.unified_diff(src.splitlines(True), dst.splitlines(True), "a/" + rel, "b/" + rel, n=3))
        open(os.path.join(OUT, name + ".diff"), "w").write(diff)
    print("wrote %d patches, %d stale" % (len(M) - bad, bad))

if __name__ == "__main__":
    main()
