#!/bin/bash
# usage: tools/mutate.sh <patch-file> <Cxx> [<Cyy>...]   apply a patch to /repo, run the checks, always restore
PATCH=$(realpath "$1"); shift
cd /repo || exit 2
if ! git diff --quiet; then echo "repo dirty, refusing"; exit 2; fi
git apply "$PATCH" || { echo "patch does not apply"; exit 2; }
cd /verif
for p in "$@"; do ./check "$p" 2>&1 | grep -v "^\[saitolint\]" | cut -c1-260 | head -${MUT_LINES:-6}; done
cd /repo && git checkout -- . && git status --short | head -3
