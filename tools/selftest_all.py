#!/usr/bin/env python3
"""run the variant self-test (mutants + equivalents) for all or the listed properties, print a summary"""
import importlib, os, sys, glob
VERIF = os.path.dirname(os.path.dirname(os.path.abspath(__file__)))
sys.path.insert(0, VERIF)
from analysis import extract, facts, report, selftest
only = sys.argv[1:]
d, m = extract.get_facts("workspace")
prog = facts.Program(d, m)
pids = sorted({os.path.basename(p).split("-")[0] for p in glob.glob(os.path.join(VERIF, "mutants", "C*.diff"))})
bad = 0
for pid in pids:
    if only and pid not in only:
        continue
    mod = importlib.import_module("analysis.rules.%s" % pid.lower())
    base = mod.run(prog, "quick", {})
    report.make_keys(base.findings)
    st = selftest.run_variants(pid, mod, "thorough", {f.key for f in base.findings}, slot=os.environ.get("SLOT", "4"))
    for rec in st["mutants"] + st["equivalents"]:
        flag = "" if rec["status"] in ("detected", "silent") else "   <<<<<<"
        if flag:
            bad += 1
        print("%-48s %s %s%s" % (rec["name"], rec["status"][:60], (rec.get("new_findings") or [""])[0][:70] if rec["status"] != "silent" else "", flag))
print("problems:", bad)
