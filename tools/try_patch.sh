#!/bin/bash
# usage: tools/try_patch.sh <patch.diff> [Cxx ...]  - apply to a scratch copy of /repo's working tree, run rules, clean up
P=$(realpath "$1"); shift
S=$(mktemp -d /var/tmp/saitolint-try.XXXXXX)
rsync -a --exclude /target --exclude .git /repo/ $S/
cd $S && git apply --whitespace=nowarn "$P" || { echo "patch does not apply"; rm -rf $S; exit 2; }
python3 /verif/tools/check_variant.py $S "$@" 2>&1 | grep -v "^\[saitolint\]" | cut -c1-330
rm -rf $S
