#!/bin/bash
# usage: tools/run_demo.sh <ID> [<srcdir>]  -> prints demo verdict without and with the change (one shared scratch worktree)
ID=$1; SRC=${2:-${SEEDROOT:-/tmp/seed_out}/$ID}; WT=/tmp/vs_demo
[ -d $WT ] || git -C /repo worktree add -q $WT HEAD
cd $WT && git checkout -q -- . && git clean -fdq -e target
T=$(python3 -c "import json;print(json.load(open('$SRC/meta.json'))['demo_test'].split('::')[-1])")
run() { CARGO_NET_OFFLINE=true cargo test --offline --workspace $T 2>&1 | grep -E "^test .*$T|panicked at" | head -3; }
git apply $SRC/demo.diff || { echo "demo.diff does not apply"; exit 2; }
echo "[$ID] unmodified:"; run
git apply $SRC/patch.diff || { echo "patch.diff does not apply"; exit 2; }
echo "[$ID] with change:"; run
git checkout -q -- . ; git clean -fdq -e target
