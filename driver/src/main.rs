// saitolint-driver: a rustc_private driver that dumps "MIR-lite" facts as JSON.
//
// Injected through RUSTC_WORKSPACE_WRAPPER under `cargo +nightly check`; for each
// workspace crate it reads `tcx.mir_promoted` (MIR after type check, before borrowck,
// drop elaboration and the coroutine transform) for every fn/closure/coroutine body and
// writes one JSON file per compilation unit into $SAITOLINT_OUT.
//
// Nothing in here knows about Saito: all repository-specific rules live in
// /verif/analysis (Python).
#![feature(rustc_private)]
#![allow(clippy::all)]

extern crate rustc_abi;
extern crate rustc_driver;
extern crate rustc_hir;
extern crate rustc_index;
extern crate rustc_interface;
extern crate rustc_middle;
extern crate rustc_mir_dataflow;
extern crate rustc_session;
extern crate rustc_span;

use std::collections::HashMap;
use std::fmt::Write as _;

use rustc_driver::{Callbacks, Compilation};
use rustc_hir::def::DefKind;
use rustc_hir::def_id::{DefId, LocalDefId};
use rustc_interface::interface::Compiler;
use rustc_middle::mir::{
    self, AggregateKind, BasicBlock, Body, BorrowKind, Const as MirConst, Local, Location,
    Operand, Place, PlaceRef, ProjectionElem, Rvalue, StatementKind, TerminatorKind, UnwindAction,
};
use rustc_middle::ty::print::{with_crate_prefix, with_no_trimmed_paths};
use rustc_middle::ty::{self, GenericArgsRef, Instance, Ty, TyCtxt, TypeVisitableExt, TypingEnv};
use rustc_mir_dataflow::impls::{MaybeInitializedPlaces, MaybeUninitializedPlaces};
use rustc_mir_dataflow::move_paths::{LookupResult, MoveData, MovePathIndex};
use rustc_mir_dataflow::{Analysis, MaybeReachable};
use rustc_span::Span;

// ---------------------------------------------------------------- JSON helpers

fn jstr(s: &str) -> String {
    let mut o = String::with_capacity(s.len() + 2);
    o.push('"');
    for c in s.chars() {
        match c {
            '"' => o.push_str("\\\""),
            '\\' => o.push_str("\\\\"),
            '\n' => o.push_str("\\n"),
            '\r' => o.push_str("\\r"),
            '\t' => o.push_str("\\t"),
            c if (c as u32) < 0x20 => {
                let _ = write!(o, "\\u{:04x}", c as u32);
            }
            c => o.push(c),
        }
    }
    o.push('"');
    o
}

fn jarr(items: &[String]) -> String {
    let mut o = String::from("[");
    for (i, it) in items.iter().enumerate() {
        if i > 0 {
            o.push(',');
        }
        o.push_str(it);
    }
    o.push(']');
    o
}

fn jobj(items: &[(&str, String)]) -> String {
    let mut o = String::from("{");
    for (i, (k, v)) in items.iter().enumerate() {
        if i > 0 {
            o.push(',');
        }
        o.push_str(&jstr(k));
        o.push(':');
        o.push_str(v);
    }
    o.push('}');
    o
}

fn jopt_bb(b: Option<BasicBlock>) -> String {
    match b {
        Some(b) => b.as_usize().to_string(),
        None => "null".into(),
    }
}

// ---------------------------------------------------------------- context

struct Cx<'tcx> {
    tcx: TyCtxt<'tcx>,
    crate_name: String,
    types: Vec<String>,
    type_ix: HashMap<Ty<'tcx>, usize>,
}

impl<'tcx> Cx<'tcx> {
    // `with_crate_prefix!` prints local items as `crate::a::b`; name the crate instead so
    // that paths are the same whether an item is seen from its own crate or a dependent one.
    fn fix(&self, s: String) -> String {
        if !s.contains("crate::") {
            return s;
        }
        let mut out = String::with_capacity(s.len() + 16);
        let mut prev: Option<char> = None;
        let mut rest: &str = &s;
        while !rest.is_empty() {
            if rest.starts_with("crate::")
                && !prev.map(|c| c.is_alphanumeric() || c == '_').unwrap_or(false)
            {
                out.push_str(&self.crate_name);
                out.push_str("::");
                rest = &rest["crate::".len()..];
                prev = Some(':');
            } else {
                let c = rest.chars().next().unwrap();
                out.push(c);
                prev = Some(c);
                rest = &rest[c.len_utf8()..];
            }
        }
        out
    }

    fn path(&self, did: DefId) -> String {
        self.fix(with_no_trimmed_paths!(with_crate_prefix!(self.tcx.def_path_str(did))))
    }

    fn path_args(&self, did: DefId, args: GenericArgsRef<'tcx>) -> String {
        self.fix(with_no_trimmed_paths!(with_crate_prefix!(self.tcx.def_path_str_with_args(did, args))))
    }

    fn ty_str(&self, ty: Ty<'tcx>) -> String {
        self.fix(with_no_trimmed_paths!(with_crate_prefix!(format!("{}", ty))))
    }

    fn span_str(&self, sp: Span) -> String {
        let sp = sp.source_callsite();
        self.tcx.sess.source_map().span_to_diagnostic_string(sp)
    }

    // interned structured type: index into the per-unit `types` table
    fn ty(&mut self, ty: Ty<'tcx>) -> usize {
        if let Some(&i) = self.type_ix.get(&ty) {
            return i;
        }
        // reserve the slot first (recursive types go through references/ADT args only, but be safe)
        let ix = self.types.len();
        self.types.push(String::new());
        self.type_ix.insert(ty, ix);
        let s = self.ty_str(ty);
        let mut items: Vec<(&str, String)> = vec![("s", jstr(&s))];
        match *ty.kind() {
            ty::Bool | ty::Char | ty::Int(_) | ty::Uint(_) | ty::Float(_) | ty::Str | ty::Never => {
                items.push(("k", jstr("prim")));
            }
            ty::Adt(def, args) => {
                items.push(("k", jstr("adt")));
                items.push(("d", jstr(&self.path(def.did()))));
                let a: Vec<String> = args.types().map(|t| self.ty(t).to_string()).collect();
                items.push(("a", jarr(&a)));
            }
            ty::Ref(_, inner, m) => {
                items.push(("k", jstr(if m.is_mut() { "refmut" } else { "ref" })));
                items.push(("i", self.ty(inner).to_string()));
            }
            ty::RawPtr(inner, m) => {
                items.push(("k", jstr(if m.is_mut() { "ptrmut" } else { "ptr" })));
                items.push(("i", self.ty(inner).to_string()));
            }
            ty::Slice(inner) => {
                items.push(("k", jstr("slice")));
                items.push(("i", self.ty(inner).to_string()));
            }
            ty::Array(inner, len) => {
                items.push(("k", jstr("array")));
                items.push(("i", self.ty(inner).to_string()));
                if let Some(n) = len.try_to_target_usize(self.tcx) {
                    items.push(("n", n.to_string()));
                }
            }
            ty::Tuple(ts) => {
                items.push(("k", jstr("tuple")));
                let a: Vec<String> = ts.iter().map(|t| self.ty(t).to_string()).collect();
                items.push(("a", jarr(&a)));
            }
            ty::Closure(did, args) => {
                items.push(("k", jstr("closure")));
                items.push(("d", jstr(&self.path(did))));
                let ups: Vec<String> =
                    args.as_closure().upvar_tys().iter().map(|t| self.ty(t).to_string()).collect();
                items.push(("a", jarr(&ups)));
            }
            ty::Coroutine(did, args) => {
                items.push(("k", jstr("coroutine")));
                items.push(("d", jstr(&self.path(did))));
                let ups: Vec<String> =
                    args.as_coroutine().upvar_tys().iter().map(|t| self.ty(t).to_string()).collect();
                items.push(("a", jarr(&ups)));
            }
            ty::CoroutineClosure(did, _) => {
                items.push(("k", jstr("coroutine_closure")));
                items.push(("d", jstr(&self.path(did))));
            }
            ty::FnDef(did, args) => {
                items.push(("k", jstr("fndef")));
                items.push(("d", jstr(&self.path(did))));
                let a: Vec<String> = args.types().map(|t| self.ty(t).to_string()).collect();
                items.push(("a", jarr(&a)));
            }
            ty::FnPtr(..) => {
                items.push(("k", jstr("fnptr")));
            }
            ty::Dynamic(preds, ..) => {
                items.push(("k", jstr("dyn")));
                if let Some(p) = preds.principal_def_id() {
                    items.push(("d", jstr(&self.path(p))));
                }
            }
            ty::Alias(alias) => {
                items.push(("k", jstr("alias")));
                items.push(("d", jstr(&self.path(alias.kind.def_id()))));
                let a: Vec<String> = alias.args.types().map(|t| self.ty(t).to_string()).collect();
                items.push(("a", jarr(&a)));
            }
            ty::Param(_) => {
                items.push(("k", jstr("param")));
            }
            _ => {
                items.push(("k", jstr("other")));
            }
        }
        self.types[ix] = jobj(&items);
        ix
    }

    fn generic_args(&mut self, args: GenericArgsRef<'tcx>) -> String {
        let a: Vec<String> = args.types().map(|t| self.ty(t).to_string()).collect();
        jarr(&a)
    }
}

// ---------------------------------------------------------------- per-body serialiser

struct BodyCx<'a, 'tcx> {
    cx: &'a mut Cx<'tcx>,
    body: &'a Body<'tcx>,
    owner: DefId,
    typing_env: TypingEnv<'tcx>,
}

impl<'a, 'tcx> BodyCx<'a, 'tcx> {
    fn line(&self, sp: Span) -> String {
        let sp = sp.source_callsite();
        let lo = self.cx.tcx.sess.source_map().lookup_char_pos(sp.lo());
        lo.line.to_string()
    }

    fn place(&mut self, p: Place<'tcx>) -> String {
        self.place_ref(p.as_ref())
    }

    fn place_ref(&mut self, p: PlaceRef<'tcx>) -> String {
        let tcx = self.cx.tcx;
        let mut projs: Vec<String> = Vec::new();
        for (base, elem) in p.iter_projections() {
            let s = match elem {
                ProjectionElem::Deref => jstr("*"),
                ProjectionElem::Field(f, _fty) => {
                    let bty = base.ty(&self.body.local_decls, tcx);
                    let (adt, name) = match *bty.ty.kind() {
                        ty::Adt(def, _) => {
                            let vi = bty.variant_index.unwrap_or(rustc_abi::FIRST_VARIANT);
                            let v = def.variant(vi);
                            let name = v
                                .fields
                                .get(f)
                                .map(|fd| fd.name.to_string())
                                .unwrap_or_else(|| f.as_usize().to_string());
                            (self.cx.path(def.did()), name)
                        }
                        ty::Closure(did, _) | ty::Coroutine(did, _) => {
                            let names = tcx.closure_saved_names_of_captured_variables(did);
                            let name = names
                                .get(f)
                                .map(|s| s.to_string())
                                .unwrap_or_else(|| f.as_usize().to_string());
                            (self.cx.path(did), name)
                        }
                        _ => (String::new(), f.as_usize().to_string()),
                    };
                    jarr(&[jstr("f"), f.as_usize().to_string(), jstr(&adt), jstr(&name)])
                }
                ProjectionElem::Index(l) => jarr(&[jstr("i"), l.as_usize().to_string()]),
                ProjectionElem::ConstantIndex { offset, min_length, from_end } => jarr(&[
                    jstr("c"),
                    offset.to_string(),
                    min_length.to_string(),
                    from_end.to_string(),
                ]),
                ProjectionElem::Subslice { from, to, from_end } => {
                    jarr(&[jstr("s"), from.to_string(), to.to_string(), from_end.to_string()])
                }
                ProjectionElem::Downcast(name, vi) => jarr(&[
                    jstr("d"),
                    jstr(&name.map(|s| s.to_string()).unwrap_or_default()),
                    vi.as_usize().to_string(),
                ]),
                ProjectionElem::OpaqueCast(_) => jarr(&[jstr("o")]),
                ProjectionElem::UnwrapUnsafeBinder(_) => jarr(&[jstr("u")]),
            };
            projs.push(s);
        }
        jarr(&[p.local.as_usize().to_string(), jarr(&projs)])
    }

    fn constant(&mut self, c: &mir::ConstOperand<'tcx>) -> String {
        let tcx = self.cx.tcx;
        let ty = c.const_.ty();
        let mut items: Vec<(&str, String)> = vec![("t", self.cx.ty(ty).to_string())];
        let disp = self.cx.fix(with_no_trimmed_paths!(with_crate_prefix!(format!("{}", c.const_))));
        items.push(("s", jstr(&disp)));
        if let ty::FnDef(did, args) = *ty.kind() {
            items.push(("fn", jstr(&self.cx.path(did))));
            items.push(("fa", self.cx.generic_args(args)));
        }
        let mut evaluable = true;
        if let MirConst::Unevaluated(uv, _) = c.const_ {
            if let Some(p) = uv.promoted {
                items.push(("promoted", p.as_usize().to_string()));
                evaluable = false; // evaluating would force borrowck and steal mir_promoted
            } else {
                items.push(("def", jstr(&self.cx.path(uv.def))));
                match tcx.def_kind(uv.def) {
                    DefKind::Const { .. } | DefKind::AssocConst { .. } => {
                        // safe: evaluates the const item's own body
                        if !uv.args.is_empty() && uv.args.has_non_region_param() {
                            evaluable = false;
                        }
                    }
                    _ => evaluable = false, // inline/anon consts of this very body
                }
            }
        }
        if let MirConst::Ty(..) = c.const_ {
            evaluable = c.const_.try_to_scalar_int().is_some();
        }
        if evaluable && (ty.is_integral() || ty.is_bool() || ty.is_char()) {
            let v = match c.const_ {
                MirConst::Val(..) | MirConst::Ty(..) => c.const_.try_to_scalar_int(),
                _ => c.const_.try_eval_scalar_int(tcx, self.typing_env),
            };
            if let Some(si) = v {
                let size = si.size();
                let val: String = if ty.is_signed() {
                    si.to_int(size).to_string()
                } else {
                    si.to_uint(size).to_string()
                };
                items.push(("v", val));
            }
        }
        jobj(&items)
    }

    fn operand(&mut self, o: &Operand<'tcx>) -> String {
        match o {
            Operand::Copy(p) => jarr(&[jstr("cp"), self.place(*p)]),
            Operand::Move(p) => jarr(&[jstr("mv"), self.place(*p)]),
            Operand::Constant(c) => jarr(&[jstr("k"), self.constant(c)]),
            Operand::RuntimeChecks(_) => jarr(&[jstr("rt")]),
        }
    }

    fn rvalue(&mut self, rv: &Rvalue<'tcx>) -> String {
        match rv {
            Rvalue::Use(o, _) => jarr(&[jstr("use"), self.operand(o)]),
            Rvalue::Repeat(o, n) => {
                let n = n
                    .try_to_target_usize(self.cx.tcx)
                    .map(|n| n.to_string())
                    .unwrap_or_else(|| "null".into());
                jarr(&[jstr("repeat"), self.operand(o), n])
            }
            Rvalue::Ref(_, bk, p) => {
                let k = match bk {
                    BorrowKind::Shared => "shared",
                    BorrowKind::Fake(_) => "fake",
                    BorrowKind::Mut { .. } => "mut",
                };
                jarr(&[jstr("ref"), jstr(k), self.place(*p)])
            }
            Rvalue::ThreadLocalRef(d) => jarr(&[jstr("tls"), jstr(&self.cx.path(*d))]),
            Rvalue::RawPtr(k, p) => jarr(&[jstr("raw"), jstr(&format!("{:?}", k)), self.place(*p)]),
            Rvalue::Cast(k, o, t) => {
                let kind = format!("{:?}", k);
                let kind = kind.split('(').next().unwrap_or("").to_string();
                jarr(&[jstr("cast"), jstr(&kind), self.operand(o), self.cx.ty(*t).to_string()])
            }
            Rvalue::BinaryOp(op, ab) => {
                let (a, b) = &**ab;
                jarr(&[jstr("bin"), jstr(&format!("{:?}", op)), self.operand(a), self.operand(b)])
            }
            Rvalue::UnaryOp(op, a) => {
                jarr(&[jstr("un"), jstr(&format!("{:?}", op)), self.operand(a)])
            }
            Rvalue::Discriminant(p) => jarr(&[jstr("discr"), self.place(*p)]),
            Rvalue::Aggregate(kind, ops) => {
                let k = match &**kind {
                    AggregateKind::Array(t) => jarr(&[jstr("array"), self.cx.ty(*t).to_string()]),
                    AggregateKind::Tuple => jarr(&[jstr("tuple")]),
                    AggregateKind::Adt(did, vi, _args, _, active) => {
                        let def = self.cx.tcx.adt_def(*did);
                        let v = def.variant(*vi);
                        let fields: Vec<String> = match active {
                            Some(f) => vec![jstr(&v.fields[*f].name.to_string())],
                            None => v.fields.iter().map(|f| jstr(&f.name.to_string())).collect(),
                        };
                        jarr(&[
                            jstr("adt"),
                            jstr(&self.cx.path(*did)),
                            jstr(&v.name.to_string()),
                            vi.as_usize().to_string(),
                            jarr(&fields),
                        ])
                    }
                    AggregateKind::Closure(did, _) => {
                        jarr(&[jstr("closure"), jstr(&self.cx.path(*did))])
                    }
                    AggregateKind::Coroutine(did, _) => {
                        jarr(&[jstr("coroutine"), jstr(&self.cx.path(*did))])
                    }
                    AggregateKind::CoroutineClosure(did, _) => {
                        jarr(&[jstr("coroutine_closure"), jstr(&self.cx.path(*did))])
                    }
                    AggregateKind::RawPtr(..) => jarr(&[jstr("rawptr")]),
                };
                let os: Vec<String> = ops.iter().map(|o| self.operand(o)).collect();
                jarr(&[jstr("agg"), k, jarr(&os)])
            }
            Rvalue::CopyForDeref(p) => jarr(&[jstr("use"), jarr(&[jstr("cp"), self.place(*p)])]),
            Rvalue::WrapUnsafeBinder(o, _) => jarr(&[jstr("use"), self.operand(o)]),
        }
    }

    fn call_info(&mut self, func: &Operand<'tcx>) -> Vec<(&'static str, String)> {
        let tcx = self.cx.tcx;
        let mut items: Vec<(&'static str, String)> = Vec::new();
        let fty = func.ty(&self.body.local_decls, tcx);
        if let ty::FnDef(did, args) = *fty.kind() {
            items.push(("callee", jstr(&self.cx.path(did))));
            items.push(("callee_full", jstr(&self.cx.path_args(did, args))));
            items.push(("cargs", self.cx.generic_args(args)));
            if let Some(tr) = tcx.trait_of_assoc(did) {
                items.push(("trait", jstr(&self.cx.path(tr))));
            }
            let norm = tcx.try_normalize_erasing_regions(self.typing_env, ty::Unnormalized::new(args));
            let args2 = match norm {
                Ok(a) => a,
                Err(_) => args,
            };
            let resolvable = matches!(tcx.def_kind(did), DefKind::Fn | DefKind::AssocFn);
            if resolvable {
                if let Ok(Some(inst)) = Instance::try_resolve(tcx, self.typing_env, did, args2) {
                    let rdid = inst.def_id();
                    items.push(("res", jstr(&self.cx.path(rdid))));
                    items.push(("res_full", jstr(&self.cx.path_args(rdid, inst.args))));
                    items.push(("rargs", self.cx.generic_args(inst.args)));
                    let kind = format!("{:?}", inst.def);
                    let kind = kind.split('(').next().unwrap_or("").trim().to_string();
                    items.push(("rkind", jstr(&kind)));
                    items.push(("rlocal", rdid.is_local().to_string()));
                }
            }
        } else {
            items.push(("callee", "null".into()));
            items.push(("fnty", self.cx.ty(fty).to_string()));
        }
        items
    }
}

fn unwind_bb(u: &UnwindAction) -> String {
    match u {
        UnwindAction::Cleanup(b) => b.as_usize().to_string(),
        _ => "null".into(),
    }
}

fn is_guard_ty<'tcx>(cx: &Cx<'tcx>, ty: Ty<'tcx>) -> bool {
    if ty.is_ref() || ty.is_raw_ptr() {
        return false;
    }
    for arg in ty.walk() {
        if let Some(t) = arg.as_type() {
            if let ty::Adt(def, _) = t.kind() {
                let p = cx.path(def.did());
                if p.ends_with("Guard") || p.ends_with("Permit") {
                    return true;
                }
            }
        }
    }
    false
}

fn any_init<'tcx>(
    md: &MoveData<'tcx>,
    set: &rustc_index::bit_set::MixedBitSet<MovePathIndex>,
    mpi: MovePathIndex,
) -> bool {
    if set.contains(mpi) {
        return true;
    }
    let mut child = md.move_paths[mpi].first_child;
    while let Some(c) = child {
        if any_init(md, set, c) {
            return true;
        }
        child = md.move_paths[c].next_sibling;
    }
    false
}

fn dump_body<'tcx>(
    cx: &mut Cx<'tcx>,
    owner: DefId,
    body: &Body<'tcx>,
    promoted_ix: Option<usize>,
) -> String {
    let tcx = cx.tcx;
    let typing_env = TypingEnv::post_analysis(tcx, owner);

    // maybe-initialised guard locals at every terminator
    let guard_locals: Vec<Local> = body
        .local_decls
        .iter_enumerated()
        .filter(|(_, d)| is_guard_ty(cx, d.ty))
        .map(|(l, _)| l)
        .collect();
    let mut held_at: HashMap<usize, Vec<usize>> = HashMap::new();
    let mut mheld_at: HashMap<usize, Vec<usize>> = HashMap::new();
    if !guard_locals.is_empty() && promoted_ix.is_none() {
        let md = MoveData::gather_moves(body, tcx, |_| true);
        let mut cursor = MaybeInitializedPlaces::new(tcx, body, &md)
            .iterate_to_fixpoint(tcx, body, None)
            .into_results_cursor(body);
        for (bb, data) in body.basic_blocks.iter_enumerated() {
            let loc = Location { block: bb, statement_index: data.statements.len() };
            cursor.seek_before_primary_effect(loc);
            if let MaybeReachable::Reachable(set) = cursor.get() {
                let mut held = Vec::new();
                for &l in &guard_locals {
                    let pl = Place::from(l);
                    match md.rev_lookup.find(pl.as_ref()) {
                        LookupResult::Exact(mpi) => {
                            if any_init(&md, set, mpi) {
                                held.push(l.as_usize());
                            }
                        }
                        LookupResult::Parent(_) => {}
                    }
                }
                if !held.is_empty() {
                    held_at.insert(bb.as_usize(), held);
                }
            }
        }
        // definitely-initialised guard locals (not maybe-uninitialised), for "certainly held"
        let mut ucursor = MaybeUninitializedPlaces::new(tcx, body, &md)
            .iterate_to_fixpoint(tcx, body, None)
            .into_results_cursor(body);
        for (bb, data) in body.basic_blocks.iter_enumerated() {
            if !held_at.contains_key(&bb.as_usize()) {
                continue;
            }
            let loc = Location { block: bb, statement_index: data.statements.len() };
            ucursor.seek_before_primary_effect(loc);
            let set = ucursor.get();
            let mut must = Vec::new();
            for &l in &held_at[&bb.as_usize()] {
                let pl = Place::from(Local::from_usize(l));
                if let LookupResult::Exact(mpi) = md.rev_lookup.find(pl.as_ref()) {
                    if !any_init(&md, set, mpi) {
                        must.push(l);
                    }
                }
            }
            if !must.is_empty() {
                mheld_at.insert(bb.as_usize(), must);
            }
        }
    }

    let mut bcx = BodyCx { cx, body, owner, typing_env };
    let _ = bcx.owner;

    let mut locals: Vec<String> = Vec::new();
    for (_, d) in body.local_decls.iter_enumerated() {
        locals.push(bcx.cx.ty(d.ty).to_string());
    }

    let mut debug: Vec<String> = Vec::new();
    for vdi in &body.var_debug_info {
        let v = match &vdi.value {
            mir::VarDebugInfoContents::Place(p) => bcx.place(*p),
            mir::VarDebugInfoContents::Const(c) => bcx.constant(c),
        };
        debug.push(jarr(&[jstr(&vdi.name.to_string()), v]));
    }

    let mut blocks: Vec<String> = Vec::new();
    for (bb, data) in body.basic_blocks.iter_enumerated() {
        let mut stmts: Vec<String> = Vec::new();
        for st in &data.statements {
            let line = bcx.line(st.source_info.span);
            match &st.kind {
                StatementKind::Assign(b) => {
                    let (p, rv) = &**b;
                    stmts.push(jarr(&[jstr("="), bcx.place(*p), bcx.rvalue(rv), line]));
                }
                StatementKind::SetDiscriminant { place, variant_index } => {
                    stmts.push(jarr(&[
                        jstr("setd"),
                        bcx.place(**place),
                        variant_index.as_usize().to_string(),
                        line,
                    ]));
                }
                StatementKind::StorageDead(l) => {
                    stmts.push(jarr(&[jstr("sd"), l.as_usize().to_string()]));
                }
                _ => {}
            }
        }
        let term = data.terminator();
        let tline = bcx.line(term.source_info.span);
        let mut t: Vec<(&str, String)> = Vec::new();
        match &term.kind {
            TerminatorKind::Goto { target } => {
                t.push(("k", jstr("goto")));
                t.push(("t", target.as_usize().to_string()));
            }
            TerminatorKind::FalseEdge { real_target, .. } => {
                t.push(("k", jstr("goto")));
                t.push(("t", real_target.as_usize().to_string()));
            }
            TerminatorKind::FalseUnwind { real_target, .. } => {
                t.push(("k", jstr("goto")));
                t.push(("t", real_target.as_usize().to_string()));
            }
            TerminatorKind::SwitchInt { discr, targets } => {
                t.push(("k", jstr("switch")));
                t.push(("discr", bcx.operand(discr)));
                let dty = discr.ty(&body.local_decls, tcx);
                t.push(("dty", bcx.cx.ty(dty).to_string()));
                let vs: Vec<String> = targets
                    .iter()
                    .map(|(v, b)| jarr(&[v.to_string(), b.as_usize().to_string()]))
                    .collect();
                t.push(("targets", jarr(&vs)));
                t.push(("otherwise", targets.otherwise().as_usize().to_string()));
            }
            TerminatorKind::UnwindResume => t.push(("k", jstr("resume"))),
            TerminatorKind::UnwindTerminate(_) => t.push(("k", jstr("terminate"))),
            TerminatorKind::Return => t.push(("k", jstr("return"))),
            TerminatorKind::Unreachable => t.push(("k", jstr("unreachable"))),
            TerminatorKind::CoroutineDrop => t.push(("k", jstr("coroutine_drop"))),
            TerminatorKind::Drop { place, target, unwind, .. } => {
                t.push(("k", jstr("drop")));
                t.push(("place", bcx.place(*place)));
                t.push(("t", target.as_usize().to_string()));
                t.push(("u", unwind_bb(unwind)));
            }
            TerminatorKind::Call { func, args, destination, target, unwind, fn_span, .. } => {
                t.push(("k", jstr("call")));
                for it in bcx.call_info(func) {
                    t.push(it);
                }
                if !matches!(func, Operand::Constant(_)) {
                    t.push(("f", bcx.operand(func)));
                }
                let a: Vec<String> = args.iter().map(|a| bcx.operand(&a.node)).collect();
                t.push(("args", jarr(&a)));
                t.push(("dest", bcx.place(*destination)));
                t.push(("t", jopt_bb(*target)));
                t.push(("u", unwind_bb(unwind)));
                t.push(("exp", term.source_info.span.from_expansion().to_string()));
                t.push(("fline", bcx.line(*fn_span)));
            }
            TerminatorKind::TailCall { func, args, .. } => {
                t.push(("k", jstr("tailcall")));
                for it in bcx.call_info(func) {
                    t.push(it);
                }
                let a: Vec<String> = args.iter().map(|a| bcx.operand(&a.node)).collect();
                t.push(("args", jarr(&a)));
            }
            TerminatorKind::Assert { cond, expected, msg, target, unwind } => {
                t.push(("k", jstr("assert")));
                t.push(("cond", bcx.operand(cond)));
                t.push(("expected", expected.to_string()));
                let m = format!("{:?}", msg);
                let m = m.split('(').next().unwrap_or("").to_string();
                t.push(("msg", jstr(&m)));
                t.push(("t", target.as_usize().to_string()));
                t.push(("u", unwind_bb(unwind)));
            }
            TerminatorKind::Yield { value, resume, resume_arg, drop } => {
                t.push(("k", jstr("yield")));
                t.push(("value", bcx.operand(value)));
                t.push(("t", resume.as_usize().to_string()));
                t.push(("resume_arg", bcx.place(*resume_arg)));
                t.push(("drop", jopt_bb(*drop)));
            }
            TerminatorKind::InlineAsm { .. } => t.push(("k", jstr("asm"))),
        }
        t.push(("line", tline));
        if let Some(h) = held_at.get(&bb.as_usize()) {
            let hs: Vec<String> = h.iter().map(|l| l.to_string()).collect();
            t.push(("held", jarr(&hs)));
        }
        if let Some(h) = mheld_at.get(&bb.as_usize()) {
            let hs: Vec<String> = h.iter().map(|l| l.to_string()).collect();
            t.push(("mheld", jarr(&hs)));
        }
        blocks.push(jobj(&[
            ("s", jarr(&stmts)),
            ("t", jobj(&t)),
            ("c", data.is_cleanup.to_string()),
        ]));
    }

    let tcx = bcx.cx.tcx;
    let mut items: Vec<(&str, String)> = Vec::new();
    let path = bcx.cx.path(owner);
    match promoted_ix {
        Some(i) => items.push(("path", jstr(&format!("{}::promoted[{}]", path, i)))),
        None => items.push(("path", jstr(&path))),
    }
    items.push(("owner", jstr(&path)));
    let dk = tcx.def_kind(owner);
    items.push(("kind", jstr(&format!("{:?}", dk))));
    if matches!(dk, DefKind::Closure) {
        items.push(("parent", jstr(&bcx.cx.path(tcx.parent(owner)))));
        items.push(("root", jstr(&bcx.cx.path(tcx.typeck_root_def_id(owner)))));
    }
    items.push(("coroutine", body.coroutine.is_some().to_string()));
    if let Some(ck) = tcx.coroutine_kind(owner) {
        items.push(("coroutine_kind", jstr(&format!("{:?}", ck))));
    }
    if matches!(dk, DefKind::Fn | DefKind::AssocFn) {
        items.push(("asyncness", tcx.asyncness(owner).is_async().to_string()));
        items.push(("vis", jstr(&format!("{:?}", tcx.visibility(owner)))));
        if let Some(imp) = tcx.impl_of_assoc(owner) {
            let self_ty = tcx.type_of(imp).instantiate_identity().skip_norm_wip();
            items.push(("impl_self", bcx.cx.ty(self_ty).to_string()));
            if let Some(tr) = tcx.impl_opt_trait_id(imp) {
                items.push(("impl_trait", jstr(&bcx.cx.path(tr))));
            }
        }
    }
    items.push(("span", jstr(&bcx.cx.span_str(body.span))));
    items.push(("argc", body.arg_count.to_string()));
    items.push(("locals", jarr(&locals)));
    items.push(("debug", jarr(&debug)));
    items.push(("blocks", jarr(&blocks)));
    jobj(&items)
}

// ---------------------------------------------------------------- driver

struct Dump;

impl Callbacks for Dump {
    fn after_expansion<'tcx>(&mut self, _c: &Compiler, tcx: TyCtxt<'tcx>) -> Compilation {
        let out_dir = match std::env::var("SAITOLINT_OUT") {
            Ok(d) => d,
            Err(_) => return Compilation::Continue,
        };
        let crate_name = tcx.crate_name(rustc_hir::def_id::LOCAL_CRATE).to_string();
        let crate_types: Vec<String> =
            tcx.crate_types().iter().map(|t| format!("{:?}", t)).collect();
        let mut cx = Cx { tcx, crate_name: crate_name.clone(), types: Vec::new(), type_ix: HashMap::new() };

        let mut bodies: Vec<String> = Vec::new();
        let mut skipped: Vec<String> = Vec::new();
        let owners: Vec<LocalDefId> = tcx.hir_body_owners().collect();
        for ldid in owners {
            let did = ldid.to_def_id();
            let dk = tcx.def_kind(did);
            if !matches!(dk, DefKind::Fn | DefKind::AssocFn | DefKind::Closure) {
                continue;
            }
            let (steal, promoted) = tcx.mir_promoted(ldid);
            if steal.is_stolen() {
                skipped.push(jstr(&cx.path(did)));
                continue;
            }
            let body = steal.borrow();
            bodies.push(dump_body(&mut cx, did, &body, None));
            if !promoted.is_stolen() {
                let pb = promoted.borrow();
                for (i, p) in pb.iter_enumerated() {
                    bodies.push(dump_body(&mut cx, did, p, Some(i.as_usize())));
                }
            }
        }

        // named constants with scalar values
        let mut consts: Vec<String> = Vec::new();
        // ADTs and impls
        let mut adts: Vec<String> = Vec::new();
        let mut impls: Vec<String> = Vec::new();
        for ldid in tcx.hir_crate_items(()).definitions() {
            let did = ldid.to_def_id();
            match tcx.def_kind(did) {
                DefKind::Const { .. } | DefKind::AssocConst { .. } => {
                    if tcx.generics_of(did).own_requires_monomorphization()
                        || tcx.generics_of(did).parent_count > 0
                    {
                        continue;
                    }
                    if tcx.trait_of_assoc(did).is_some() && tcx.impl_of_assoc(did).is_none() {
                        continue;
                    }
                    let ty = tcx.type_of(did).instantiate_identity().skip_norm_wip();
                    if !(ty.is_integral() || ty.is_bool()) {
                        continue;
                    }
                    if let Ok(val) = tcx.const_eval_poly(did) {
                        if let Some(si) = val.try_to_scalar_int() {
                            let size = si.size();
                            let v = if ty.is_signed() {
                                si.to_int(size).to_string()
                            } else {
                                si.to_uint(size).to_string()
                            };
                            consts.push(jobj(&[
                                ("path", jstr(&cx.path(did))),
                                ("ty", jstr(&cx.ty_str(ty))),
                                ("v", v),
                            ]));
                        }
                    }
                }
                DefKind::Struct | DefKind::Enum | DefKind::Union => {
                    let def = tcx.adt_def(did);
                    let mut variants: Vec<String> = Vec::new();
                    let discrs: Vec<String> = if def.is_enum() {
                        def.discriminants(tcx).map(|(_, d)| d.val.to_string()).collect()
                    } else {
                        Vec::new()
                    };
                    for (vi, v) in def.variants().iter().enumerate() {
                        let mut fields: Vec<String> = Vec::new();
                        for f in &v.fields {
                            let fty = tcx.type_of(f.did).instantiate_identity().skip_norm_wip();
                            fields.push(jobj(&[
                                ("name", jstr(&f.name.to_string())),
                                ("ty", cx.ty(fty).to_string()),
                                ("vis", jstr(&format!("{:?}", f.vis))),
                            ]));
                        }
                        variants.push(jobj(&[
                            ("name", jstr(&v.name.to_string())),
                            ("discr", discrs.get(vi).cloned().unwrap_or_else(|| "null".into())),
                            ("fields", jarr(&fields)),
                        ]));
                    }
                    adts.push(jobj(&[
                        ("path", jstr(&cx.path(did))),
                        ("kind", jstr(&format!("{:?}", tcx.def_kind(did)))),
                        ("variants", jarr(&variants)),
                    ]));
                }
                DefKind::Impl { of_trait: true } => {
                    let tr = match tcx.impl_opt_trait_id(did) {
                        Some(t) => t,
                        None => continue,
                    };
                    let self_ty = tcx.type_of(did).instantiate_identity().skip_norm_wip();
                    let mut its: Vec<String> = Vec::new();
                    let mut pairs: Vec<(String, String)> = Vec::new();
                    for &iid in tcx.associated_item_def_ids(did) {
                        if let Some(tid) = tcx.associated_item(iid).trait_item_def_id() {
                            pairs.push((cx.path(tid), cx.path(iid)));
                        }
                    }
                    pairs.sort();
                    for (a, b) in pairs {
                        its.push(jarr(&[jstr(&a), jstr(&b)]));
                    }
                    impls.push(jobj(&[
                        ("trait", jstr(&cx.path(tr))),
                        ("self", jstr(&cx.ty_str(self_ty))),
                        ("items", jarr(&its)),
                    ]));
                }
                _ => {}
            }
        }

        let n_bodies = bodies.len();
        let doc = jobj(&[
            ("crate", jstr(&crate_name)),
            ("crate_types", jarr(&crate_types.iter().map(|s| jstr(s)).collect::<Vec<_>>())),
            ("n_bodies", n_bodies.to_string()),
            ("skipped", jarr(&skipped)),
            ("consts", jarr(&consts)),
            ("adts", jarr(&adts)),
            ("impls", jarr(&impls)),
            ("types", jarr(&cx.types)),
            ("bodies", jarr(&bodies)),
        ]);
        let stable = tcx.stable_crate_id(rustc_hir::def_id::LOCAL_CRATE).as_u64();
        let fname =
            format!("{}/{}-{}-{:016x}.json", out_dir, crate_name, crate_types.join("_"), stable);
        let tmp = format!("{}.tmp{}", fname, std::process::id());
        std::fs::write(&tmp, doc).expect("saitolint: cannot write fact file");
        std::fs::rename(&tmp, &fname).expect("saitolint: cannot publish fact file");
        Compilation::Continue
    }
}

fn main() {
    let mut args: Vec<String> = std::env::args().collect();
    // RUSTC_WORKSPACE_WRAPPER: argv[1] is the path of the real rustc
    if args.len() > 1 && (args[1].ends_with("rustc") || args[1].contains("/rustc")) {
        args.remove(1);
    }
    let mut cb = Dump;
    rustc_driver::run_compiler(&args, &mut cb);
}
