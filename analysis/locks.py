"""Lock-order analysis (C20): acquire sites, held sets, callee summaries, gate excuse."""
import re

from .callgraph import CallGraph, is_future_ty, norm
from .facts import callee_of

ASYNC_ACQ = re.compile(
    r"^tokio::sync::(RwLock|Mutex)::(read|write|read_owned|write_owned|lock|lock_owned)::\{closure#0\}$")
SYNC_ACQ = re.compile(
    r"^(tokio::sync::(RwLock|Mutex)::(try_read|try_write|try_read_owned|try_write_owned|blocking_read|blocking_write|try_lock|try_lock_owned|blocking_lock|blocking_lock_owned)"
    r"|std::sync::(Mutex|RwLock)::(lock|read|write|try_lock|try_read|try_write)"
    r"|std::sync::poison::(mutex::Mutex|rwlock::RwLock)::(lock|read|write|try_lock|try_read|try_write))$")
GUARD_ADT = re.compile(
    r"^(tokio::sync::(RwLockReadGuard|RwLockWriteGuard|OwnedRwLockReadGuard|OwnedRwLockWriteGuard|RwLockMappedWriteGuard|OwnedRwLockMappedWriteGuard|MutexGuard|OwnedMutexGuard|MappedMutexGuard|OwnedMappedMutexGuard)"
    r"|std::sync::(MutexGuard|RwLockReadGuard|RwLockWriteGuard)"
    r"|std::sync::poison::(mutex::MutexGuard|rwlock::RwLockReadGuard|rwlock::RwLockWriteGuard))$")

WRITE_FUNCS = ("write", "write_owned", "lock", "lock_owned", "try_write", "try_write_owned", "blocking_write",
               "try_lock", "try_lock_owned", "blocking_lock", "blocking_lock_owned")

CONFIG_TRAIT = "saito_core::core::util::configuration::Configuration"

# lock class -> name of the rank constant in saito-core/src/core/defs.rs
RANK_CONST = {
    "network_controller": "LOCK_ORDER_NETWORK_CONTROLLER",
    "sockets": "LOCK_ORDER_SOCKETS",
    "configs": "LOCK_ORDER_CONFIGS",
    "blockchain": "LOCK_ORDER_BLOCKCHAIN",
    "mempool": "LOCK_ORDER_MEMPOOL",
    "peers": "LOCK_ORDER_PEERS",
    "wallet": "LOCK_ORDER_WALLET",
}
GATE = "SAITO"


class LockModel:
    def __init__(self, prog):
        self.prog = prog
        self.config_types = set()
        for u in prog.units:
            for imp in u.impls:
                if imp["trait"] == CONFIG_TRAIT:
                    self.config_types.add(imp["self"])
        self.ranks = {}
        for cls, cname in RANK_CONST.items():
            v = prog.const("core::defs::" + cname)
            if v is None:
                raise LookupError("rank constant %s not found in facts" % cname)
            self.ranks[cls] = v
        order = [self.ranks[c] for c in ("network_controller", "sockets", "configs", "blockchain", "mempool", "peers", "wallet")]
        if order != sorted(set(order)):
            raise ValueError("LOCK_ORDER_* constants are not strictly increasing in the documented order: %r" % order)

    def class_of(self, tstr):
        """lock class for the protected type T of RwLock<T>/Mutex<T>"""
        if tstr.startswith("dyn " + CONFIG_TRAIT) or tstr in self.config_types:
            return "configs"
        table = (
            ("saito_core::core::consensus::blockchain::Blockchain", "blockchain"),
            ("saito_core::core::consensus::mempool::Mempool", "mempool"),
            ("saito_core::core::consensus::peers::peer_collection::PeerCollection", "peers"),
            ("saito_core::core::consensus::wallet::Wallet", "wallet"),
            ("saito_rust::network_controller::NetworkController", "network_controller"),
            ("std::collections::HashMap<u64, saito_rust::network_controller::PeerSender>", "sockets"),
            ("std::option::Option<saito_wasm::saitowasm::SaitoWasm>", GATE),
        )
        for t, c in table:
            if tstr == t:
                return c
        return "unranked:" + tstr

    def rank(self, cls):
        return self.ranks.get(cls)

    # -- acquire sites
    def direct_acquire(self, body, t):
        """(class, mode, api) if this call terminator acquires a lock itself"""
        if t["k"] != "call":
            return None
        res = norm(t.get("res") or "")
        if t.get("callee") == "std::future::Future::poll":
            m = ASYNC_ACQ.match(res)
            if not m:
                return None
            fn = m.group(2)
        else:
            m = SYNC_ACQ.match(res) or SYNC_ACQ.match(norm(t.get("callee") or ""))
            if not m:
                return None
            fn = res.rsplit("::", 1)[-1]
        rargs = t.get("rargs") or t.get("cargs") or []
        if not rargs:
            return None
        tstr = body.tyix(rargs[0])["s"]
        mode = "w" if fn in WRITE_FUNCS else "r"
        return (self.class_of(tstr), mode, fn)

    # -- held guards
    def guards_in_type(self, unit, tyix, seen=None):
        """[(class, mode)] of lock guards contained (by value) in a type"""
        out = []
        seen = seen if seen is not None else set()
        if tyix in seen:
            return out
        seen.add(tyix)
        ty = unit.types[tyix]
        k = ty["k"]
        if k in ("ref", "refmut", "ptr", "ptrmut"):
            return out
        if k == "adt":
            if GUARD_ADT.match(ty["d"]):
                args = ty.get("a", [])
                tstr = unit.types[args[0]]["s"] if args else "?"
                mode = "r" if "ReadGuard" in ty["d"] else "w"
                out.append((self.class_of(tstr), mode))
                return out
        for a in ty.get("a", []):
            out.extend(self.guards_in_type(unit, a, seen))
        if "i" in ty and k in ("array", "slice"):
            out.extend(self.guards_in_type(unit, ty["i"], seen))
        return out

    def held(self, body, bb, must=False):
        """[(class, mode, local)] at the terminator of bb"""
        t = body.term(bb)
        out = []
        for l in t.get("mheld" if must else "held", []):
            for cls, mode in self.guards_in_type(body.unit, body.locals[l]):
                out.append((cls, mode, l))
        return out


class LockAnalysis:
    """Summaries over one program (a set of units that link into one executable)."""

    def __init__(self, prog, model, units, name, root_units=None):
        """root_units: units whose bodies are the program's entry points (default: all units).
        Only bodies reachable from them are `live`; callers that are not live do not count."""
        self.prog = prog
        self.model = model
        self.name = name
        self.cg = CallGraph(prog, units)
        roots = [p for p, b in self.cg.bodies.items() if root_units is None or b.unit in root_units]
        self.live = self.cg.reachable_from(roots)
        self.contrib = {}   # body path -> [(bb, dst, kind)]
        self.direct = {}    # body path -> [(bb, class, mode, api)]
        self.spawn_in = set()
        self._sites()
        self._acq()
        self._entry_must()

    def _sites(self):
        cg = self.cg
        for p, b in cg.bodies.items():
            direct = []
            for bb, t in b.calls():
                a = self.model.direct_acquire(b, t)
                if a:
                    direct.append((bb,) + a)
            self.direct[p] = direct
            contrib = []
            for e in cg.out[p]:
                dstb = cg.bodies[e.dst]
                if e.kind == "spawn":
                    self.spawn_in.add(e.dst)
                    continue
                if e.kind == "await":
                    contrib.append((e.bb, e.dst, "await"))
                elif e.kind in ("call", "dyn"):
                    t = b.term(e.bb)
                    dest = t["dest"]
                    fut = (not dest[1]) and is_future_ty(b.ty(dest[0]))
                    if fut and dstb.raw.get("asyncness"):
                        # async fn wrapper: builds the coroutine, runs nothing. The resolved poll site
                        # carries the await edge; only an escaping future is charged to this site.
                        fl = cg.flow(b, dest[0])
                        if fl["returned"] or fl["escapes"] or not fl["polled"]:
                            contrib.append((e.bb, e.dst, "call-escaping-future"))
                    else:
                        contrib.append((e.bb, e.dst, e.kind))
                        if fut:
                            # boxed future (async_trait): its poll does not resolve; charge the poll sites too
                            for pbb in cg.flow(b, dest[0])["polled"]:
                                contrib.append((pbb, e.dst, "await-boxed"))
                elif e.kind == "creates":
                    if dstb.is_coroutine:
                        st_dest = None
                        for st in b.stmts(e.bb):
                            if st[0] == "=" and st[2][0] == "agg" and st[2][1][0] in ("coroutine", "coroutine_closure") and st[2][1][1] == e.dst:
                                st_dest = st[1][0]
                        if st_dest is None:
                            contrib.append((e.bb, e.dst, "creates"))
                        else:
                            fl = cg.flow(b, st_dest)
                            if fl["returned"] or fl["escapes"] or not fl["polled"]:
                                contrib.append((e.bb, e.dst, "creates-escaping-future"))
                    else:
                        contrib.append((e.bb, e.dst, "creates"))
            self.contrib[p] = contrib

    def _acq(self):
        acq = {p: set((c, m) for (_, c, m, _) in d) for p, d in self.direct.items()}
        changed = True
        while changed:
            changed = False
            for p, contrib in self.contrib.items():
                s = acq[p]
                n = len(s)
                for (_, dst, _) in contrib:
                    s |= acq[dst]
                if len(s) != n:
                    changed = True
        # an async fn wrapper "acquires" what its coroutine acquires when the future escapes
        self.acq = acq

    def _entry_must(self):
        """classes certainly held by every caller at every site that runs the body (greatest fixpoint)"""
        ALL = None
        incoming = {p: [] for p in self.cg.bodies}
        for p, contrib in self.contrib.items():
            if p not in self.live:
                continue
            for (bb, dst, kind) in contrib:
                incoming[dst].append((p, bb))
        # An async fn wrapper whose future is always awaited in place is never charged as a callee: the
        # poll sites (await edges) are the coroutine's real callers. Such a wrapper must not count as an
        # ungated "root" caller of its own coroutine.
        skip_src = set()
        for p, b in self.cg.bodies.items():
            if b.raw.get("asyncness") and not incoming[p] and any(
                    e.kind in ("call", "dyn") and e.src in self.live for e in self.cg.inn[p]):
                skip_src.add(p)
        for p in incoming:
            incoming[p] = [(src, bb) for (src, bb) in incoming[p] if src not in skip_src]
        em = {}
        for p in self.cg.bodies:
            if not incoming[p] or p in self.spawn_in:
                em[p] = frozenset()
            else:
                em[p] = ALL
        changed = True
        while changed:
            changed = False
            for p in self.cg.bodies:
                if not incoming[p] or p in self.spawn_in:
                    continue
                cur = ALL
                for (src, bb) in incoming[p]:
                    if em[src] is ALL:
                        continue
                    b = self.cg.bodies[src]
                    h = frozenset(c for (c, _, _) in self.model.held(b, bb, must=True)) | em[src]
                    cur = h if cur is ALL else (cur & h)
                if cur is not ALL and cur != em[p]:
                    em[p] = cur
                    changed = True
        for p in em:
            if em[p] is ALL:
                em[p] = frozenset()
        self.entry_must = em

    def nestings(self):
        """All (held Y, acquired X) pairs: list of dicts, one per (site, Y-guard, X)."""
        out = []
        model = self.model
        for p, b in self.cg.bodies.items():
            sites = {}
            for (bb, cls, mode, api) in self.direct[p]:
                sites.setdefault(bb, []).append((cls, mode, "direct:" + api, None))
            for (bb, dst, kind) in self.contrib[p]:
                for (cls, mode) in sorted(self.acq[dst]):
                    sites.setdefault(bb, []).append((cls, mode, kind, dst))
            for bb, acqs in sites.items():
                held = model.held(b, bb)
                if not held:
                    continue
                must = frozenset(c for (c, _, _) in model.held(b, bb, must=True)) | self.entry_must[p]
                seen = set()
                for (x, xm, how, dst) in acqs:
                    for (y, ym, yl) in held:
                        key = (x, xm, y, ym, yl, dst)
                        if key in seen:
                            continue
                        seen.add(key)
                        out.append({
                            "program": self.name, "body": p, "bb": bb, "loc": b.loc(bb),
                            "acquired": x, "acq_mode": xm, "how": how, "callee": dst,
                            "held": y, "held_mode": ym, "held_local": yl,
                            "held_name": b.name_of(yl), "under": sorted(must),
                        })
        return out

    def path_to_acquire(self, start, cls):
        """call path from body `start` to a body that directly acquires class cls"""
        def pred(p):
            return any(c == cls for (_, c, _, _) in self.direct.get(p, ()))
        path = self.cg.shortest_path(start, pred)
        if path is None:
            return None
        steps = [start]
        for e in path:
            steps.append("%s (%s at %s)" % (e.dst, e.kind, self.cg.bodies[e.src].loc(e.bb)))
        last = path[-1].dst if path else start
        b = self.cg.bodies[last]
        for (bb, c, m, api) in self.direct[last]:
            if c == cls:
                steps.append("%s.%s() at %s" % (cls, api, b.loc(bb)))
                break
        return steps
