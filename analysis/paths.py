"""Path exploration over a MIR body with a small abstract environment for booleans.

`explore` walks normal CFG edges (no unwind / coroutine-drop edges) from a start block carrying an
environment {local: True|False} for bool locals whose value is known on the current path (assigned a
constant, a copy or a negation of a known local, or fixed by the caller).  A `switchInt` on a known local
follows only the matching edge, so the `a && b` / `!a` lowering and early-return idioms are decided
exactly instead of producing infeasible paths.  Exploration never crosses `deleted_edges` nor enters
`blocked` blocks; `accept(bb, env)` is asked at every visited block's terminator and the first witness
path per accept kind is returned.
"""
from .report import CheckError

MAX_STATES = 400000


def const_bool(op):
    if op[0] == "k" and "v" in op[1]:
        v = op[1]["v"]
        if v in (0, 1):
            return bool(v)
    return None


def op_local(op):
    if op[0] in ("cp", "mv") and not op[1][1]:
        return op[1][0]
    return None


class Explorer:
    def __init__(self, body, fixed_fields=None, fixed_locals=None, fixed_places=None):
        """fixed_fields: {upvar/param field name: bool} - a statement `x = (_1.name)` sets x to the value.
        fixed_locals: {local: bool} applied at start and never killed (parameters)."""
        self.body = body
        self.fixed_fields = fixed_fields or {}
        self.fixed_locals = dict(fixed_locals or {})
        self.fixed_places = dict(fixed_places or {})   # {(local, (field idx, ...)): bool}
        self.bool_locals = set(i for i in range(len(body.locals)) if body.ty(i)["s"] == "bool")

    def _eval(self, rv, env):
        k = rv[0]
        if k == "use":
            c = const_bool(rv[1])
            if c is not None:
                return c
            l = op_local(rv[1])
            if l is not None:
                return env.get(l)
            if rv[1][0] in ("cp", "mv"):
                pl = rv[1][1]
                fk = (pl[0], tuple(pr[1] for pr in pl[1] if isinstance(pr, list) and pr[0] == "f"))
                if fk in self.fixed_places and all(isinstance(pr, list) and pr[0] == "f" for pr in pl[1]):
                    return self.fixed_places[fk]
                # field of _1 (captured variable / coroutine upvar) that the caller fixed
                for pr in pl[1]:
                    if isinstance(pr, list) and pr[0] == "f" and pr[3] in self.fixed_fields:
                        return self.fixed_fields[pr[3]]
            return None
        if k == "un" and rv[1] == "Not":
            c = const_bool(rv[2])
            if c is not None:
                return not c
            l = op_local(rv[2])
            if l is not None and l in env:
                return not env[l]
            return None
        if k == "bin" and rv[1] in ("Eq", "Ne", "BitAnd", "BitOr", "BitXor"):
            a = const_bool(rv[2]) if const_bool(rv[2]) is not None else env.get(op_local(rv[2])) if op_local(rv[2]) is not None else None
            b = const_bool(rv[3]) if const_bool(rv[3]) is not None else env.get(op_local(rv[3])) if op_local(rv[3]) is not None else None
            if a is None or b is None:
                if rv[1] == "BitAnd" and (a is False or b is False):
                    return False
                if rv[1] == "BitOr" and (a is True or b is True):
                    return True
                return None
            return {"Eq": a == b, "Ne": a != b, "BitAnd": a and b, "BitOr": a or b, "BitXor": a != b}[rv[1]]
        return None

    def _tag(self, rv, env):
        k = rv[0]
        if k == "agg" and rv[1][0] == "adt":
            tag = rv[1][2]
            # (bool, _) style payloads: remember a known first field, e.g. "Some" stays "Some"
            return tag
        if k == "agg" and rv[1][0] == "tuple" and rv[2]:
            c = const_bool(rv[2][0])
            if c is None:
                l0 = op_local(rv[2][0])
                c = env.get(l0) if l0 is not None else None
            if isinstance(c, bool):
                return "tuple0:%s" % ("true" if c else "false")
            return None
        if k == "use":
            l = op_local(rv[1])
            if l is not None:
                v = env.get(l)
                return v if isinstance(v, str) else None
            if rv[1][0] == "k":
                # unit-like enum constants print as `Path::Variant`
                s = rv[1][1].get("s") or ""
                if "::" in s and s.replace("_", "").replace(":", "").isalnum():
                    return s.split("::")[-1]
            return None
        return None

    VARIANT_IX = {"None": 0, "Some": 1, "Ok": 0, "Err": 1, "Ready": 0, "Pending": 1, "Continue": 0, "Break": 1}

    def _discr(self, rv, env):
        """value of `discriminant(local)` when the local's variant tag is known"""
        pl = rv[1]
        if pl[1]:
            # a verdict moved into a tuple and matched there: `let (Ok(()), Some(k)) = (result, key) else {..}`
            if all(isinstance(pr, list) and pr[0] == "f" for pr in pl[1]):
                tag = self.fixed_places.get((pl[0], tuple(pr[1] for pr in pl[1])))
                if isinstance(tag, str) and tag in self.VARIANT_IX:
                    return ("int", self.VARIANT_IX[tag])
            return None
        tag = env.get(pl[0])
        if not isinstance(tag, str):
            return None
        ty = self.body.ty(pl[0])
        if ty["k"] == "adt":
            adt = self.body.unit.adts.get(ty["d"])
            if adt is None:
                for u in getattr(self, "all_units", ()):
                    adt = u.adts.get(ty["d"])
                    if adt:
                        break
            if adt is not None:
                for i, v in enumerate(adt["variants"]):
                    if v["name"] == tag:
                        return ("int", i)
                return None
            if ty["d"] in ("std::option::Option", "std::result::Result", "std::task::Poll", "std::ops::ControlFlow"):
                if tag in self.VARIANT_IX:
                    return ("int", self.VARIANT_IX[tag])
        return None

    def step_block(self, bb, env):
        """apply the statements of bb to env (a dict, copied by caller)"""
        for st in self.body.stmts(bb):
            if st[0] == "sd":
                # StorageDead: the value is gone; forgetting it keeps the state space small
                if st[1] not in self.fixed_locals:
                    env.pop(st[1], None)
                continue
            if st[0] != "=":
                continue
            pl = st[1]
            if pl[1]:
                continue
            l = pl[0]
            if l in self.fixed_locals:
                continue
            if st[2][0] == "discr":
                dv = self._discr(st[2], env)
                if dv is None:
                    env.pop(l, None)
                else:
                    env[l] = dv
                continue
            if st[2][0] == "ref" and not st[2][2][1] and isinstance(env.get(st[2][2][0]), str):
                env[l] = ("ref", st[2][2][0])     # &tagged_local, for is_ok()/is_err()/is_some()/is_none()
                continue
            if l not in self.bool_locals:
                # enum-variant tags ("Some", "None", "Ok", "BlockAddedSuccessfully", ...) for non-bool locals
                tag = self._tag(st[2], env)
                if tag is None:
                    env.pop(l, None)
                else:
                    env[l] = tag
                continue
            v = self._eval(st[2], env)
            if v is None:
                env.pop(l, None)
            else:
                env[l] = v
        return env

    def successors(self, bb, env):
        """(succ, env') pairs after the terminator of bb under env"""
        t = self.body.term(bb)
        k = t["k"]
        if k == "switch":
            l = op_local(t["discr"])
            known = env.get(l) if l is not None else None
            if not isinstance(known, bool):
                known = None
            if known is None:
                c = const_bool(t["discr"])
                known = c
            if l is not None and isinstance(env.get(l), tuple) and env[l][0] == "int":
                val = env[l][1]
                for v, tgt in t["targets"]:
                    if v == val:
                        return [(tgt, env)]
                return [(t["otherwise"], env)]
            is_bool = self.body.tyix(t["dty"])["s"] == "bool"
            if known is not None and is_bool:
                val = 1 if known else 0
                for v, tgt in t["targets"]:
                    if v == val:
                        return [(tgt, env)]
                return [(t["otherwise"], env)]
            outs = []
            if is_bool and l is not None and l not in self.fixed_locals:
                # learn the tested value on each edge
                vals = {v for v, _ in t["targets"]}
                for v, tgt in t["targets"]:
                    e2 = dict(env)
                    e2[l] = bool(v)
                    outs.append((tgt, e2))
                if len(vals) == 1:
                    e2 = dict(env)
                    e2[l] = not bool(next(iter(vals)))
                    outs.append((t["otherwise"], e2))
                else:
                    outs.append((t["otherwise"], env))
                return outs
            return [(s, env) for s in self.body.succ(bb)]
        if k == "call":
            d = t["dest"]
            if not d[1] and d[0] not in self.fixed_locals:
                tag = None
                cal = (t.get("callee") or "")
                PRED = {"std::result::Result::<T, E>::is_err": ("Err",), "std::result::Result::<T, E>::is_ok": ("Ok",),
                        "std::option::Option::<T>::is_some": ("Some",), "std::option::Option::<T>::is_none": ("None",)}
                if cal in PRED and t["args"]:
                    a = op_local(t["args"][0])
                    r = env.get(a) if a is not None else None
                    if isinstance(r, tuple) and r[0] == "ref" and isinstance(env.get(r[1]), str):
                        tag = env[r[1]] in PRED[cal]
                    elif isinstance(r, str):
                        tag = r in PRED[cal]
                if (t.get("callee") or "").endswith("FromResidual::from_residual"):
                    # the `?` operator's early return: Err(..) for Result, None for Option
                    ty = self.body.ty(d[0])
                    if ty.get("d") == "std::result::Result":
                        tag = "Err"
                    elif ty.get("d") == "std::option::Option":
                        tag = "None"
                if tag is not None:
                    env = dict(env)
                    env[d[0]] = tag
                elif d[0] in env:
                    env = dict(env)
                    env.pop(d[0], None)
            return [(t["t"], env)] if t.get("t") is not None else []
        if k == "yield":
            return [(t["t"], env)]
        return [(s, env) for s in self.body.succ(bb)]

    def explore(self, start_bb, env0=None, deleted_edges=(), blocked=(), accept=None, skip_first_stmts=False):
        """Returns {accept_kind: path(list of bb)} for every accept kind found (first witness each)."""
        deleted = set(deleted_edges)
        blocked = set(blocked)
        env0 = dict(env0 or {})
        env0.update(self.fixed_locals)
        found = {}
        start_key = (start_bb, frozenset(env0.items()))
        parent = {start_key: None}
        stack = [(start_bb, env0, start_key, skip_first_stmts)]
        n = 0
        while stack:
            bb, env, key, skip = stack.pop()
            n += 1
            if n > MAX_STATES:
                raise CheckError("path exploration exceeded %d states in %s" % (MAX_STATES, self.body.path))
            env = dict(env)
            if not skip:
                self.step_block(bb, env)
            if accept is not None:
                kind = accept(bb, env)
                if kind and kind not in found:
                    path = []
                    k2 = key
                    while k2 is not None:
                        path.append(k2[0])
                        k2 = parent[k2]
                    found[kind] = path[::-1]
                if kind and kind.startswith("stop:"):
                    continue
            for s, e2 in self.successors(bb, env):
                if s is None or (bb, s) in deleted or s in blocked:
                    continue
                k3 = (s, frozenset(e2.items()))
                if k3 in parent:
                    continue
                parent[k3] = key
                stack.append((s, e2, k3, False))
        self.states = n
        return found


def return_value_kind(body, bb, env):
    """for a Return terminator of a bool-returning body: True / False / None(unknown)"""
    return env.get(0)


def describe_path(body, path, limit=14):
    """file:line trail of a block path, compressed"""
    lines = []
    for bb in path:
        ln = body.term(bb).get("line")
        if ln and (not lines or lines[-1] != ln):
            lines.append(ln)
    if len(lines) > limit:
        lines = lines[:limit // 2] + ["..."] + lines[-limit // 2:]
    return "%s: lines %s" % (body.file, " -> ".join(str(x) for x in lines))
