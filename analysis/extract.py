"""Fact extraction: run the rustc_private driver over /repo's current working tree.

The driver is injected with RUSTC_WORKSPACE_WRAPPER under `cargo +nightly check --offline`
run in /repo, so the real manifests, Cargo.lock, features and targets are used.  Facts are
cached under a key that hashes every source/manifest file of /repo plus the driver binary, so
any edit to /repo forces a new extraction while a series of checks on one tree shares one.
"""
import fcntl
import glob
import hashlib
import json
import os
import shutil
import subprocess
import sys
import time

VERIF = os.path.dirname(os.path.dirname(os.path.abspath(__file__)))
REPO = os.environ.get("SAITOLINT_REPO", "/repo")
CACHE = os.environ.get("SAITOLINT_CACHE", "/var/tmp/saitolint")
DRIVER_DIR = os.path.join(VERIF, "driver")
DRIVER = os.path.join(DRIVER_DIR, "target", "debug", "saitolint-driver")

# configuration name -> (cargo arguments, expected units: (crate, crate type) -> floor of bodies)
# floors are a little below the counts measured on the pinned tree (promoted bodies included)
CONFIGS = {
    "workspace": (
        ["--workspace"],
        {
            ("saito_core", "Rlib"): 2100,
            ("saito_wasm", "Cdylib"): 1050,
            ("saito_rust", "Rlib"): 240,
            ("saito_rust", "Executable"): 65,
            ("saito_spammer", "Rlib"): 120,
            ("saito_spammer", "Executable"): 25,
        },
    ),
    # saito-core alone: feature `with-rayon` off (the variant saito-wasm ships)
    "core-norayon": (["-p", "saito-core"], {("saito_core", "Rlib"): 2100}),
}


class ExtractError(Exception):
    pass


def _sysroot():
    return subprocess.check_output(["rustc", "+nightly", "--print", "sysroot"], text=True).strip()


def build_driver(quiet=True):
    src = [os.path.join(DRIVER_DIR, "src", "main.rs"), os.path.join(DRIVER_DIR, "Cargo.toml")]
    if os.path.exists(DRIVER) and all(os.path.getmtime(DRIVER) >= os.path.getmtime(s) for s in src):
        return
    env = dict(os.environ, CARGO_NET_OFFLINE="true")
    env.pop("RUSTFLAGS", None)
    env.pop("RUSTC_WORKSPACE_WRAPPER", None)
    r = subprocess.run(["cargo", "+nightly", "build", "--offline"], cwd=DRIVER_DIR, env=env,
                       stdout=subprocess.PIPE, stderr=subprocess.STDOUT, text=True)
    if r.returncode != 0 or not os.path.exists(DRIVER):
        raise ExtractError("driver build failed:\n" + r.stdout[-4000:])


def tree_files(repo=None):
    repo = repo or REPO
    out = []
    for root, dirs, files in os.walk(repo):
        dirs[:] = [d for d in dirs if d not in ("target", ".git", "node_modules", "saito-js", "saito-e2e")]
        for f in files:
            if f.endswith(".rs") or f in ("Cargo.toml", "Cargo.lock", "config.toml", "rust-toolchain.toml", "rust-toolchain"):
                out.append(os.path.join(root, f))
    out.sort()
    return out


def tree_hash(repo=None):
    repo = repo or REPO
    h = hashlib.sha256()
    for p in tree_files(repo):
        h.update(os.path.relpath(p, repo).encode())
        h.update(b"\0")
        with open(p, "rb") as f:
            h.update(hashlib.sha256(f.read()).digest())
    with open(DRIVER, "rb") as f:
        h.update(hashlib.sha256(f.read()).digest())
    return h.hexdigest()[:24]


def _verify(dirpath, expected):
    seen = {}
    for f in glob.glob(os.path.join(dirpath, "*.json")):
        if os.path.basename(f) == "meta.json":
            continue
        with open(f) as fh:
            head = fh.read(400)
        # cheap header parse: {"crate":"x","crate_types":["Rlib"],"n_bodies":N,
        try:
            crate = head.split('"crate":"')[1].split('"')[0]
            ctype = head.split('"crate_types":["')[1].split('"')[0]
            n = int(head.split('"n_bodies":')[1].split(",")[0])
        except Exception as e:  # noqa
            raise ExtractError("unreadable fact file %s" % f)
        seen[(crate, ctype)] = (n, f)
    problems = []
    for key, floor in expected.items():
        if key not in seen:
            problems.append("no fact file for unit %s/%s" % key)
        elif seen[key][0] < floor:
            problems.append("unit %s/%s has %d bodies, floor %d" % (key + (seen[key][0], floor)))
    if problems:
        raise ExtractError("; ".join(problems))
    return seen


def get_facts(config="workspace", repo=None, log=sys.stderr, slot=None):
    """Return (facts_dir, meta) for the current working tree of `repo`, extracting if needed."""
    repo = repo or REPO
    cargo_args, expected = CONFIGS[config]
    build_driver()
    os.makedirs(CACHE, exist_ok=True)
    key = tree_hash(repo)
    facts_root = os.path.join(CACHE, "facts")
    os.makedirs(facts_root, exist_ok=True)
    final = os.path.join(facts_root, "%s-%s" % (config, key))
    lock_path = os.path.join(CACHE, "lock" if slot is None else "lock-slot%s" % slot)
    with open(lock_path, "w") as lock:
        fcntl.flock(lock, fcntl.LOCK_EX)
        if os.path.isdir(final):
            try:
                _verify(final, expected)
                with open(os.path.join(final, "meta.json")) as f:
                    meta = json.load(f)
                meta["cached"] = True
                return final, meta
            except Exception:
                shutil.rmtree(final, ignore_errors=True)
        t0 = time.time()
        tmp = final + ".tmp%d" % os.getpid()
        shutil.rmtree(tmp, ignore_errors=True)
        os.makedirs(tmp)
        # key the dependency cache by repo location so scratch copies do not thrash it
        tkey = hashlib.sha256(os.path.abspath(repo).encode()).hexdigest()[:8] if os.path.abspath(repo) != "/repo" else "repo"
        if slot is not None:
            tkey = "slot%s" % slot   # scratch copies share a small pool of dependency caches
        target = os.path.join(CACHE, "target-%s" % tkey)
        os.makedirs(target, exist_ok=True)
        # cargo's freshness cache would skip the wrapper: force the members to be re-checked
        for fp in glob.glob(os.path.join(target, "debug", ".fingerprint", "saito-*")):
            shutil.rmtree(fp, ignore_errors=True)
        env = dict(os.environ)
        sysroot = _sysroot()
        env.update({
            "LD_LIBRARY_PATH": os.path.join(sysroot, "lib") + (":" + env["LD_LIBRARY_PATH"] if env.get("LD_LIBRARY_PATH") else ""),
            # the first flag replicates /repo/.cargo/config.toml, which env RUSTFLAGS overrides
            "RUSTFLAGS": "--cfg tokio_unstable -Zmir-opt-level=0 -Awarnings",
            "RUSTC_WORKSPACE_WRAPPER": DRIVER,
            "SAITOLINT_OUT": tmp,
            "CARGO_TARGET_DIR": target,
            "CARGO_NET_OFFLINE": "true",
        })
        cmd = ["cargo", "+nightly", "check", "--offline"] + cargo_args
        print("[saitolint] extracting facts (%s): %s" % (config, " ".join(cmd)), file=log)
        r = subprocess.run(cmd, cwd=repo, env=env, stdout=subprocess.PIPE, stderr=subprocess.STDOUT, text=True)
        if r.returncode != 0:
            shutil.rmtree(tmp, ignore_errors=True)
            raise ExtractError("cargo check failed under the driver (does /repo compile?):\n" + r.stdout[-6000:])
        try:
            seen = _verify(tmp, expected)
        except ExtractError:
            shutil.rmtree(tmp, ignore_errors=True)
            raise
        meta = {
            "config": config,
            "tree_hash": key,
            "units": {"%s/%s" % k: v[0] for k, v in seen.items()},
            "extract_s": round(time.time() - t0, 1),
            "cmd": " ".join(cmd),
            "cached": False,
        }
        with open(os.path.join(tmp, "meta.json"), "w") as f:
            json.dump(meta, f)
        try:
            os.rename(tmp, final)
        except OSError:
            # another process (different slot, same tree content) published the same fact set first
            shutil.rmtree(tmp, ignore_errors=True)
            _verify(final, expected)
        # keep the cache small: drop fact sets other than the 6 most recent
        sets = sorted((d for d in glob.glob(os.path.join(facts_root, "*")) if os.path.isdir(d)), key=os.path.getmtime)
        for d in sets[:-6]:
            shutil.rmtree(d, ignore_errors=True)
        return final, meta


if __name__ == "__main__":
    cfg = sys.argv[1] if len(sys.argv) > 1 else "workspace"
    d, m = get_facts(cfg)
    print(d, json.dumps(m))
