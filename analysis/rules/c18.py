"""C18 (clause) - a lite block carries the full block's header.

R1 header coverage: every Block field that is part of the block's identity (read by serialize_for_signature, written in the
   fixed header of serialize_for_net, plus hash and signature) is copied by generate_lite_block from the same field of the
   full block; the single exception is merkle_root, which is recomputed with generate_merkle_root(self, ..)
R2 retention: the closure that chooses between keeping a transaction and replacing it by a placeholder builds the placeholder
   only when neither an input nor an output belongs to a listed key
"""
from .. import gate
from ..expr import Chaser, call_name, has_call, has_field, show, strip, walk
from ..report import Finding, Result
from . import c06, c09

CORE = "saito_core::core::"
BLK = CORE + "consensus::block::Block::"


def run(prog, tier, extra=None):
    res = Result("C18", "other")
    R1 = res.rule("C18.header", "generate_lite_block copies every identity/header field from the same field of the full block", floor=30)
    R2 = res.rule("C18.retention", "a transaction is replaced by a placeholder only if no input and no output key is listed", floor=2)
    R5 = res.rule("C18.lite-root", "for a lite client, generate_merkle_root hands back the stored root of every block that carries no transactions", floor=1)
    R4 = res.rule("C18.placeholder-leaf", "the value a receiver recomputes a placeholder's merkle leaf from is, in generate_lite_block, the omitted transaction's leaf hash", floor=1)
    R3 = res.rule("C18.ordinal", "a kept transaction gets the ordinal it has in the full block: the counter advances by a placeholder's txs_replacements", floor=1)
    lb = prog.body(BLK + "generate_lite_block")
    if lb is None:
        raise LookupError("generate_lite_block not found")
    ch = Chaser(lb)
    signed = c06.reads_of(prog, BLK + "serialize_for_signature")
    cd = c09.Codec(prog)
    segs = cd.writer_table(prog.body(BLK + "serialize_for_net"))
    header = set()
    for f, w in segs:
        if w is None:
            break
        if f and "." not in f:
            header.add(f)
    block_fields = {f["name"] for f in prog.adts[CORE + "consensus::block::Block"]["variants"][0]["fields"]}
    H = ((signed | header) & block_fields) | {"hash", "signature"}
    H.discard("transactions")
    copied = {}
    for bb, blk in enumerate(lb.blocks):
        for st in blk["s"]:
            if st[0] != "=":
                continue
            fs = [pr for pr in st[1][1] if isinstance(pr, list) and pr[0] == "f"]
            if not fs or not fs[-1][2].endswith("block::Block") or st[1][1][-1] != fs[-1]:
                continue
            copied[fs[-1][3]] = (ch.rvalue(st[2], 0), bb)
        t = blk["t"]
        if t["k"] == "call":
            fs = [pr for pr in t["dest"][1] if isinstance(pr, list) and pr[0] == "f"]
            if fs and fs[-1][2].endswith("block::Block") and t["dest"][1][-1] == fs[-1]:
                copied[fs[-1][3]] = (ch.call(t, bb, 0), bb)
    for g in sorted(H):
        res.instance(R1)
        if g not in copied:
            res.add(Finding(R1, "C18.header|%s|missing" % g, "generate_lite_block does not set %s: the lite block's header differs from the full block's" % g, lb.loc(0)))
            continue
        e, bb = copied[g]
        x = strip(e)
        if g == "merkle_root":
            if not (has_call(e, "Block::generate_merkle_root")):
                res.add(Finding(R1, "C18.header|merkle_root", "generate_lite_block does not recompute merkle_root with generate_merkle_root(self, ..): %s" % show(e)[:80], lb.loc(bb)))
            continue
        ok = x[0] == "field" and x[3] == g and x[2].endswith("block::Block") and strip(x[1])[0] == "param" and strip(x[1])[1] == 1
        if not ok:
            res.add(Finding(R1, "C18.header|%s" % g, "generate_lite_block sets %s from %s instead of self.%s" % (g, show(e)[:80], g), lb.loc(bb)))
        else:
            res.sample({"field": g, "verdict": "copied from self." + g})
    res.extra["identity_fields"] = sorted(H)

    # R2
    closures = [b for b in prog.all_bodies() if b.path.startswith(BLK + "generate_lite_block::{closure") and b.path.count("{closure") == 1]

    def builds_placeholder(body):
        """blocks of `body` in which a Transaction value is put together field by field (the placeholder)"""
        out = []
        bch = None
        for bb, blk in enumerate(body.blocks):
            for st in blk["s"]:
                if st[0] == "=" and st[2][0] == "agg" and st[2][1][0] == "adt" and st[2][1][1].endswith("transaction::Transaction"):
                    names = st[2][1][4]
                    bch = bch or Chaser(body)
                    for i, op in enumerate(st[2][2]):
                        if i < len(names) and names[i] == "transaction_type":
                            v = strip(bch.origin(op))
                            if (v[0] == "agg" and v[1][0] == "adt" and v[1][2] == "SPV") or (v[0] == "const" and "SPV" in (v[2] or "")):
                                out.append(bb)
        return out
    chooser = None
    builder = None          # the body that contains the placeholder aggregate: the chooser itself or a helper it calls
    placeholder_blocks = []
    for b in closures:
        if builds_placeholder(b):
            chooser, builder, placeholder_blocks = b, b, builds_placeholder(b)
    if chooser is None:
        # the literal may have been moved into a private helper (`Block::create_spv_placeholder(tx)`)
        for b in closures:
            for bb, t in b.calls():
                h = prog.bodies.get(t.get("res") or t.get("callee") or "")
                if h is not None and not h.is_promoted and h.ty(0)["s"].endswith("transaction::Transaction") and builds_placeholder(h):
                    chooser, builder = b, h
                    placeholder_blocks.append(bb)
    if chooser is None:
        res.add(Finding(R2, "C18.retention|no-chooser", "generate_lite_block has no closure that builds the placeholder transaction (anchor moved?)", lb.loc(0)))
    else:
        cch = Chaser(chooser)
        placeholder = placeholder_blocks

        def any_over(field):
            def pred(e):
                if e[0] != "call" or e[1] not in ("std::iter::Iterator::any", "rayon::iter::ParallelIterator::any"):
                    return False
                if not has_field(e, "transaction::Transaction", field):
                    return False
                # the predicate closure tests keylist.contains(&slip.public_key)
                for x in walk(e):
                    if x[0] == "agg" and x[1][0] == "closure":
                        pb = prog.bodies.get(x[1][1])
                        if pb is not None:
                            pch = Chaser(pb)
                            for _, t in pb.calls():
                                last = (call_name(t) or "").rsplit("::", 1)[-1]
                                args = [pch.origin(a) for a in t["args"]]
                                if not any(has_field(a, "slip::Slip", "public_key") for a in args):
                                    continue
                                # membership tests: exact lookups, or a binary search on a list sorted beforehand
                                if last in ("contains", "contains_key", "get", "eq"):
                                    return True
                                if last.startswith("binary_search"):
                                    if sorted_before[0]:
                                        return True
                                    notes.append("binary_search on a key list that generate_lite_block never sorts")
                return False
            return pred
        notes = []
        sorted_before = [any((call_name(t) or "").rsplit("::", 1)[-1] in ("sort", "sort_unstable", "sort_by", "sort_unstable_by", "sort_by_key") for _, t in lb.calls())]
        for field in ("from", "to"):
            res.instance(R2)
            edges = gate.bool_switch_edges(chooser, cch, any_over(field))
            if not edges["sites"]:
                why = (" (%s)" % notes[0]) if notes else ""
                res.add(Finding(R2, "C18.retention|%s|no-test" % field, "the lite-block chooser has no sound test of whether a listed key appears in tx.%s%s" % (field, why), chooser.loc(0)))
                continue
            # with only the false edges of this test removed, the placeholder must be unreachable:
            # i.e. reaching the placeholder requires this test to have been false
            reach = chooser.reachable(0, deleted_edges=edges["false"])
            if any(bb in reach for bb in placeholder):
                res.add(Finding(R2, "C18.retention|%s" % field, "a transaction whose %s contains a listed key can still be replaced by a placeholder" % ("inputs" if field == "from" else "outputs"),
                                chooser.loc(placeholder[0])))
            else:
                res.sample({"rule": R2, "side": field, "test": [chooser.loc(x) for x in edges["sites"]], "verdict": "placeholder only when no listed key on this side"})
    # R5: generate_lite_block fills the lite header with self.generate_merkle_root(true, true). A block that has been pruned / is a header
    # carries no transactions, so the root cannot be recomputed and must be the stored one - whatever the block's type tag says. The
    # function must test the emptiness of the transaction list itself, and with (is_spv = true, transactions empty) every return must
    # pass a definition of the result from self.merkle_root.
    gmr = prog.body(BLK + "generate_merkle_root")
    if gmr is None:
        raise LookupError("Block::generate_merkle_root not found")
    chr5 = Chaser(gmr)
    res.instance(R5)
    empt = gate.bool_switch_edges(gmr, chr5, lambda e: e[0] == "call" and e[1].rsplit("::", 1)[-1] == "is_empty" and e[2] and has_field(e[2][0], "block::Block", "transactions"))
    lenz = gate.compare_edges(gmr, chr5, lambda a, c: a[0] == "len" and has_field(a, "block::Block", "transactions") and c[0] == "const" and c[1] == 0)
    empty_false = set(empt["false"]) | set(lenz["ne"])
    own5 = set()
    for d in gmr.defs(0):
        e = chr5.rvalue(d[3], 0) if d[0] == "stmt" else chr5.call(d[2], d[1], 0)
        if has_field(e, "block::Block", "merkle_root"):
            own5.add(d[1])
    spv_param = next((l for l in range(1, gmr.argc + 1) if gmr.name_of(l) == "is_spv"), None)
    if not (empt["sites"] or lenz["sites"]):
        res.add(Finding(R5, "C18.lite-root|no-emptiness-test", "Block::generate_merkle_root no longer decides on `self.transactions.is_empty()`: a transaction-less block whose type tag "
                        "is not one it lists (e.g. a pruned block) gets the root of an empty list, so its lite block carries a header that differs from the full block's", gmr.loc(0)))
    elif spv_param is None or not own5:
        res.not_decided.append("C18.lite-root: is_spv parameter / stored-root return not recognised")
    else:
        from ..paths import Explorer
        found5 = Explorer(gmr, fixed_locals={spv_param: True}).explore(0, deleted_edges=empty_false, blocked=own5,
                                                                       accept=lambda bb, env: "return" if gmr.term(bb)["k"] == "return" else None)
        if found5:
            kind, pth = sorted(found5.items())[0]
            res.add(Finding(R5, "C18.lite-root|recomputed", "Block::generate_merkle_root can recompute the root of a block without transactions for a lite client instead of handing back "
                            "the stored one", gmr.loc(pth[-1])))
        else:
            res.sample({"rule": R5, "verdict": "empty + lite always returns the stored root"})

    # R4: a placeholder stands for the omitted transaction's merkle leaf (its hash_for_signature). hash_for_signature is not a wire
    # field; a receiver recomputes it with Transaction::generate_hash_for_signature, whose SPV branch reads some field(s) F of the
    # decoded placeholder. The placeholders are "sufficient to recompute the commitment" only if generate_lite_block stores the omitted
    # transaction's leaf hash in F (and F is on the wire).
    TXP = CORE + "consensus::transaction::Transaction::"
    gh = prog.body(TXP + "generate_hash_for_signature")
    if gh is None:
        raise LookupError("Transaction::generate_hash_for_signature not found")
    chg = Chaser(gh)
    spv_reads = set()
    from ..fields import place_has_field
    for blk in gh.blocks:
        for st in blk["s"]:
            if st[0] == "=" and place_has_field(st[1], "transaction::Transaction", "hash_for_signature") is not None:
                e = chg.rvalue(st[2], 0)
                if any(x[0] == "call" and x[1].endswith("crypto::hash") for x in walk(e)):
                    continue        # the ordinary branch: hash of the signed bytes
                for x in walk(e):
                    if x[0] == "field" and x[2].endswith("transaction::Transaction"):
                        spv_reads.add(x[3])
    res.instance(R4)
    wire = {f.split(".")[0] for f, w in cd.writer_table(prog.body(TXP + "serialize_for_net_with_hop")) if f}
    if not spv_reads:
        res.not_decided.append("C18.placeholder-leaf: generate_hash_for_signature has no field-derived branch (placeholders recomputed some other way)")
    elif builder is not None:
        cch4 = Chaser(builder)
        for blk in builder.blocks:
            for st in blk["s"]:
                if st[0] == "=" and st[2][0] == "agg" and st[2][1][0] == "adt" and st[2][1][1].endswith("transaction::Transaction"):
                    names = st[2][1][4]
                    for i, op in enumerate(st[2][2]):
                        if i < len(names) and names[i] in spv_reads:
                            v = cch4.origin(op)
                            if not has_field(v, "transaction::Transaction", "hash_for_signature"):
                                res.add(Finding(R4, "C18.placeholder-leaf|%s" % names[i],
                                                "a receiver recomputes a placeholder's merkle leaf from Transaction.%s (generate_hash_for_signature, SPV branch), but "
                                                "generate_lite_block fills that field with %s, not with the omitted transaction's leaf hash: after a wire round trip the "
                                                "placeholders no longer recompute the header's commitment" % (names[i], show(v)[:40]), chooser.loc(0)))
                            elif names[i] not in wire:
                                res.add(Finding(R4, "C18.placeholder-leaf|%s|not-on-wire" % names[i], "Transaction.%s carries the placeholder's leaf but is not written by serialize_for_net" % names[i], chooser.loc(0)))
                            else:
                                res.sample({"rule": R4, "field": names[i], "verdict": "carries the omitted transaction's leaf hash and is on the wire"})
    # R3: the slips of a kept transaction are keyed by (block id, transaction ordinal, slip index). A receiver regenerates them from
    # the lite block, in which runs of omitted transactions are merged into placeholders; the ordinal handed to Transaction::generate
    # must therefore be a counter that a placeholder advances by the number of transactions it stands for (txs_replacements), not the
    # position in the (shorter) lite list. Necessary for "contains those transactions in full": a wrong ordinal changes the outputs' keys.
    from ._txgen import generate_sites as _gs
    _bg, own_sites, helper_sites = _gs(prog)
    n_calls = 0
    for site in own_sites + [s_ for _, _, hs in helper_sites for s_ in hs]:
        gb = site.call_body
        gch = Chaser(gb)
        t = gb.term(site.call_bb)
        if len(t["args"]) < 3:
            continue
        n_calls += 1
        res.instance(R3)

        def depends_on_replacements(e, seen, gb=gb, gch=gch):
            if has_field(e, "transaction::Transaction", "txs_replacements") or _callee_reads_replacements(prog, e):
                return True
            for x in walk(e):
                if x[0] == "local" and x[1] not in seen:
                    seen.add(x[1])
                    for d in gb.defs(x[1]):
                        if d[0] == "stmt" and depends_on_replacements(gch.rvalue(d[3], 0), seen):
                            return True
            return False
        arg = gch.origin(t["args"][2])
        ok = depends_on_replacements(arg, set())
        if not ok and site.form == "fold" and any(x[0] == "param" for x in walk(arg)):
            # `fold(0, |ordinal, tx| { tx.generate(.., ordinal, ..); <next ordinal> })`: the counter is the accumulator, its step is the closure's result
            ok = any(depends_on_replacements(gch.rvalue(d[3], 0) if d[0] == "stmt" else gch.call(d[2], d[1], 0), set()) for d in gb.defs(0) if d[0] in ("stmt", "call"))
        if ok:
            res.sample({"rule": R3, "site": gb.loc(site.call_bb), "ordinal": show(arg)[:60], "verdict": "a counter that adds txs_replacements for placeholders"})
        else:
            res.add(Finding(R3, "C18.ordinal|%s" % gb.path, "Block::generate hands Transaction::generate an ordinal (%s) that does not account for txs_replacements: in a lite block "
                            "a transaction kept after a merged placeholder gets its position in the lite list, and its regenerated slips differ from the full block's"
                            % show(arg)[:50], gb.loc(site.call_bb)))
    if n_calls == 0:
        res.instance(R3)
        res.add(Finding(R3, "C18.ordinal|anchors", "Block::generate no longer calls Transaction::generate (anchor moved?)", lb.loc(0)))
    # "survives a wire round trip": the lite block travels in the ordinary block / transaction codecs
    from ._include import include
    include(res, prog, tier, extra, "c09", ["C09.layout", "C09.count-limits", "C09.container-domain", "C09.no-field-skipped", "C09.read-before-decode"],
            "a lite block is a Block on the wire: it is read back only if writer and reader of Block and Transaction agree")
    res.explanation = (
        "Decides header coverage of the lite projection: every Block field that enters the signed bytes or the fixed wire header (plus hash and signature) is copied from "
        "the same field of the full block, merkle_root is recomputed from the projected transaction list, and the per-transaction chooser can build a placeholder only when "
        "neither inputs nor outputs touch a listed key. It does not decide placeholder merging nor the recomputed commitment (the exponential pattern space the property names).")
    res.assumptions = ["identity set = reads of serialize_for_signature + fixed header segments of serialize_for_net + {hash, signature}"]
    return res


def _callee_reads_replacements(prog, e):
    """the expression calls a workspace function that reads Transaction.txs_replacements (`tx_index += Self::tx_index_step(tx)`)"""
    from ..fields import place_has_field
    for x in walk(e):
        if x[0] == "call" and x[1] in prog.bodies:
            cb = prog.bodies[x[1]]
            if cb.is_promoted or cb.nblocks > 80:
                continue
            for blk in cb.blocks:
                for st in blk["s"]:
                    if st[0] == "=" and "txs_replacements" in repr(st[2]):
                        return True
    return False
