"""Cross-listing of rules: a property whose statement depends on a mechanism another property's module already
decides re-runs those rules under its own id (same analysis, same instances; keys are prefixed so a known finding
of the other property is never silently inherited)."""
import importlib

from ..report import Finding


def include(res, prog, tier, extra, module, rules, why, keep=None):
    """Run analysis.rules.<module> and copy the named rules (instances, floors, findings) into `res`.
    `keep(finding)` may restrict the findings (e.g. to bodies reachable from this property's entry points)."""
    if extra is not None and extra.get("_included"):
        return None
    mod = importlib.import_module("analysis.rules.%s" % module)
    sub = mod.run(prog, tier, {"_included": True})
    pid = res.property_id
    for rid in rules:
        if rid not in sub.rules:
            raise LookupError("rule %s not produced by module %s" % (rid, module))
        r = sub.rules[rid]
        nid = "%s.via-%s" % (pid, rid)
        res.rule(nid, "%s [%s: %s]" % (why, rid, r["desc"]), floor=r["floor"])
        res.instance(nid, r["instances"])
    for f in sub.findings:
        if f.rule in rules and (keep is None or keep(f)):
            nid = "%s.via-%s" % (pid, f.rule)
            res.add(Finding(nid, "%s.via|%s" % (pid, f.key), f.what, f.loc, f.detail))
    for s in sub.samples[:6]:
        if isinstance(s, dict) and s.get("rule") in rules:
            res.sample(dict(s, rule="%s.via-%s" % (pid, s["rule"])))
    return sub
