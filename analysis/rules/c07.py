"""C07 (clause) - producer and validator are siblings of one computation.

R1 Block::create and Block::validate take their consensus values from the same callee (generate_consensus_values);
   Mempool::can_bundle_block and Block::validate take the required routing work from the same callee with arguments of
   the same provenance (parent burn fee, the new block's timestamp, parent timestamp, heartbeat interval)
R2 field correspondence: for every comparison cv.F vs self.G on which Block::validate rejects, Block::create assigns
   block.G, and when it assigns it directly from a consensus value it is the same F; derived assignments
   (treasury, graveyard) are compared as linear forms over cv.* / parent fields when both sides normalise
"""
from .. import gate
from ..expr import Chaser, call_name, has_call, has_field, show, strip, walk
from ..fields import place_has_field
from ..linear import Lin
from ..report import Finding, Result
from ._blockvalidate import CORE, BlockValidate

BLK = CORE + "consensus::block::Block::"
WORK_FN = "BurnFee::return_routing_work_needed_to_produce_block_in_nolan"
CV = "block::ConsensusValues"


def cv_field(e):
    x = strip(e)
    if x[0] == "field" and x[2].endswith(CV):
        return x[3]
    return None


def canon_lin(body, ch, e, self_is_block=False):
    """linear form over canonical atoms 'cv.F' / 'prev.X' / 'self.X', or None"""
    x = e
    while x[0] in ("ref", "deref", "cast") or (x[0] == "via"):
        x = x[2] if x[0] == "via" else x[1]
    if x[0] == "const" and isinstance(x[1], int):
        return {"1": x[1]}
    f = cv_field(x)
    if f:
        return {"cv." + f: 1}
    if x[0] == "field" and x[1][0] == "bin" and x[3] == "0":
        return canon_lin(body, ch, x[1])
    if x[0] == "bin":
        op = x[1].replace("WithOverflow", "")
        a, b = canon_lin(body, ch, x[2]), canon_lin(body, ch, x[3])
        if a is None or b is None or op not in ("Add", "Sub"):
            return None
        out = dict(a)
        for k, v in b.items():
            out[k] = out.get(k, 0) + (v if op == "Add" else -v)
        return {k: v for k, v in out.items() if v != 0}
    if x[0] == "field" and x[2].endswith("block::Block"):
        return {"prev." + x[3]: 1}
    if x[0] == "local":
        # an accumulator / copy: what does it read?
        srcs = set()
        consts = 0
        for d in body.defs(x[1]):
            if d[0] == "stmt":
                e2 = ch.rvalue(d[3], 0)
                for y in walk(e2):
                    if y[0] == "field" and y[2].endswith("block::Block"):
                        srcs.add("prev." + y[3])
                    if y[0] == "field" and y[2].endswith(CV):
                        srcs.add("cv." + y[3])
        if len(srcs) == 1:
            return {srcs.pop(): 1}
        # expected_x = prev.x; expected_x += cv.a; expected_x -= cv.b  (validator's style): sum the updates
        total = {}
        ok = True
        for d in body.defs(x[1]):
            if d[0] != "stmt":
                ok = False
                break
            e2 = ch.rvalue(d[3], 0)
            y = strip(e2)
            if y[0] == "field" and y[1][0] == "bin" and y[3] == "0":
                y = y[1]
            if y[0] == "bin" and strip(y[2]) == ("local", x[1], x[2]):
                term = canon_lin(body, ch, y[3])
                if term is None:
                    ok = False
                    break
                sign = 1 if y[1].startswith("Add") else -1 if y[1].startswith("Sub") else None
                if sign is None:
                    ok = False
                    break
                for k, v in term.items():
                    total[k] = total.get(k, 0) + sign * v
            else:
                term = canon_lin(body, ch, e2) if y[0] != "local" else None
                if term is None:
                    ok = False
                    break
                for k, v in term.items():
                    total[k] = total.get(k, 0) + v
        return {k: v for k, v in total.items() if v != 0} if ok and total else None
    return None


def run(prog, tier, extra=None):
    res = Result("C07", "other")
    R1 = res.rule("C07.same-source", "producer and validator call the same functions for consensus values and required work, with matching argument provenance", floor=3)
    R3 = res.rule("C07.scan-covers-block", "the producer's double-spend scan runs after the last transaction is added to the block", floor=1)
    R5 = res.rule("C07.fee-slip-index", "each output of the expected fee transaction carries its position as slip_index (signing renumbers the block's copy by position)", floor=1)
    R4 = res.rule("C07.fee-tx-presence", "the producer appends the fee transaction exactly when the consensus values contain one", floor=1)
    R2 = res.rule("C07.field-correspondence", "every header field the validator compares with a consensus value is produced from the same consensus value", floor=22)
    bv = BlockValidate(prog)
    vb, vch = bv.body, bv.ch
    cr = prog.body(BLK + "create::{closure#0}")
    cb = prog.body(CORE + "consensus::mempool::Mempool::can_bundle_block::{closure#0}")
    if cr is None or cb is None:
        raise LookupError("Block::create / Mempool::can_bundle_block not found")
    cch = Chaser(cr)

    def calls_cv(body):
        for bb, t in body.calls():
            r = t.get("res") or ""
            if call_name(t) == BLK + "generate_consensus_values" or r == BLK + "generate_consensus_values::{closure#0}":
                return bb
        return None
    for name, body in (("Block::create", cr), ("Block::validate", vb)):
        res.instance(R1)
        if calls_cv(body) is None:
            res.add(Finding(R1, "C07.same-source|cv|%s" % name, "%s does not obtain its consensus values from Block::generate_consensus_values" % name, body.loc(0)))
    # required work
    def work_args(body, ch):
        for bb, t in body.calls():
            if (call_name(t) or "").endswith(WORK_FN):
                return bb, [ch.origin(a) for a in t["args"]]
        # the computation may have been moved into a private helper (`self.has_adequate_routing_work(prev, heartbeat)`):
        # read it there, with the helper's parameters replaced by the arguments of the call
        for bb, t in body.calls():
            helper = prog.bodies.get(t.get("res") or t.get("callee") or "")
            if helper is None or helper.is_promoted or helper.path == body.path:
                continue
            hch = None
            for hb, ht in helper.calls():
                if (call_name(ht) or "").endswith(WORK_FN):
                    hch = hch or Chaser(helper)
                    outer = [ch.origin(a) for a in t["args"]]
                    return bb, [gate.subst_params(hch.origin(a), outer) for a in ht["args"]]
        return None, None
    vbb, vargs = work_args(vb, vch)
    bch = Chaser(cb)
    bbb, bargs = work_args(cb, bch)
    res.instance(R1)
    if vargs is None or bargs is None:
        res.add(Finding(R1, "C07.same-source|work", "required routing work is not computed by %s in both Block::validate and Mempool::can_bundle_block" % WORK_FN, (vb if vargs is None else cb).loc(0)))
    else:
        def classes(args, own_ts):
            out = []
            for a in args:
                if has_field(a, "block::Block", "burnfee"):
                    out.append("parent.burnfee")
                elif has_field(a, None, "heartbeat_interval"):
                    out.append("heartbeat_interval")
                elif own_ts(a):
                    out.append("own.timestamp")
                elif has_field(a, "block::Block", "timestamp"):
                    out.append("parent.timestamp")
                else:
                    out.append("other:" + show(a)[:40])
            return out
        vc = classes(vargs, lambda a: bv.is_self_field(a, "timestamp"))
        # in can_bundle_block the block does not exist yet: its timestamp is the `current_timestamp` argument
        pc = classes(bargs, lambda a: strip(a)[0] in ("param", "local", "field") and not has_field(a, "block::Block", "timestamp") and not has_field(a, "block::Block", "burnfee") and not has_field(a, None, "heartbeat_interval"))
        if vc != pc or vc != ["parent.burnfee", "own.timestamp", "parent.timestamp", "heartbeat_interval"]:
            res.add(Finding(R1, "C07.same-source|work-args", "required work is computed from %s in Block::validate but from %s in Mempool::can_bundle_block" % (vc, pc), cb.loc(bbb)))
        else:
            res.sample({"rule": R1, "work_fn_args": vc, "validate": vb.loc(vbb), "can_bundle_block": cb.loc(bbb)})

    # R2: the validator's comparisons
    pairs = {}
    derived_v = {}
    for bb, blk in enumerate(vb.blocks):
        t = blk["t"]
        if t["k"] != "switch" or vb.tyix(t["dty"])["s"] != "bool":
            continue
        e, neg = gate.unwrap_not(vch.origin(t["discr"]))
        if e[0] == "bin" and e[1] in ("Eq", "Ne"):
            a, b = e[2], e[3]
        elif e[0] == "call" and e[1] in ("std::cmp::PartialEq::eq", "std::cmp::PartialEq::ne") and len(e[2]) == 2:
            a, b = e[2]
        else:
            continue
        for x, y in ((a, b), (b, a)):
            f = cv_field(x)
            ys = strip(y)
            if f and ys[0] == "field" and ys[2].endswith("block::Block") and bv.is_self_field(y, ys[3]):
                pairs[ys[3]] = (f, bb)
            elif ys[0] == "field" and ys[2].endswith("block::Block") and bv.is_self_field(y, ys[3]) and strip(x)[0] == "local":
                lin = canon_lin(vb, vch, x)
                if lin and any(k.startswith("cv.") for k in lin):
                    derived_v[ys[3]] = (lin, bb)
    # the producer's assignments
    direct, derived_c, assigned = {}, {}, set()
    # Block::create may hand part of the header filling to private Block methods taking the consensus values
    # (`block.apply_fee_totals(&cv)`): their assignments count as the producer's, reported at the call site
    producer_bodies = [(cr, cch, None)]
    for bb, t in cr.calls():
        hb = prog.bodies.get(t.get("res") or t.get("callee") or "")
        if hb is None or hb.is_promoted or not hb.path.startswith(BLK) or hb.path == cr.path or "::tests::" in hb.path:
            continue
        ptys = [hb.ty_str(i + 1) for i in range(len(t["args"]))]
        if ptys and ptys[0].replace(" ", "").startswith("&mut") and "block::Block" in ptys[0] and any(CV in x for x in ptys[1:]):
            producer_bodies.append((hb, Chaser(hb), bb))

    def block_field_stores(body):
        for bb, blk in enumerate(body.blocks):
            for st in blk["s"]:
                if st[0] != "=":
                    continue
                fs = [pr for pr in st[1][1] if isinstance(pr, list) and pr[0] == "f"]
                if not fs or not fs[-1][2].endswith("block::Block") or st[1][1][-1] != fs[-1]:
                    continue
                yield bb, st, fs[-1][3]
    for pbody, pch, site in producer_bodies:
        for bb, st, g in block_field_stores(pbody):
            at = bb if site is None else site
            assigned.add(g)
            e = pch.rvalue(st[2], 0)
            f = cv_field(e)
            if f:
                direct[g] = (f, at)
            else:
                lin = canon_lin(pbody, pch, e)
                if lin:
                    derived_c[g] = (lin, at)
    # fields the producer recomputes from fields of the block under construction (block.total_fees = block.total_fees_new + ...)
    producer_lin = {}

    def root_of(e):
        x = strip(e)
        while x[0] in ("deref", "ref"):
            x = strip(x[1])
        return (x[0], x[1]) if x[0] in ("local", "param") else None

    def own_lin(e, base):
        x = strip(e)
        if x[0] == "field" and x[1][0] == "bin" and x[3] == "0":
            return own_lin(x[1], base)
        if x[0] == "const" and isinstance(x[1], int):
            return {"1": x[1]} if x[1] else {}
        fcv = cv_field(x)
        if fcv:
            return {"cv." + fcv: 1}
        if x[0] == "bin":
            op = x[1].replace("WithOverflow", "")
            a, b_ = own_lin(x[2], base), own_lin(x[3], base)
            if a is None or b_ is None or op not in ("Add", "Sub"):
                return None
            out = dict(a)
            for k, v in b_.items():
                out[k] = out.get(k, 0) + (v if op == "Add" else -v)
            return {k: v for k, v in out.items() if v != 0}
        if x[0] == "field" and x[2].endswith("block::Block") and root_of(x[1]) is not None and root_of(x[1])[1] == base and x[3] in direct:
            return {"cv." + direct[x[3]][0]: 1}
        return None
    for pbody, pch, site in producer_bodies:
        for bb, st, g_ in block_field_stores(pbody):
            if g_ in direct:
                continue
            lin_ = own_lin(pch.rvalue(st[2], 0), st[1][0])
            at = bb if site is None else site
            producer_lin[g_] = (lin_, at) if g_ not in producer_lin else (None, at)       # assigned twice: not decided
    gcv = prog.body(BLK + "generate_consensus_values::{closure#0}")
    gen_defs = {}
    if gcv is not None:
        gch = Chaser(gcv)
        for bb, blk in enumerate(gcv.blocks):
            for st in blk["s"]:
                if st[0] != "=":
                    continue
                fs = [pr for pr in st[1][1] if isinstance(pr, list) and pr[0] == "f"]
                if fs and fs[-1][2].endswith(CV) and st[1][1][-1] == fs[-1]:
                    gen_defs.setdefault(fs[-1][3], []).append(canon_lin(gcv, gch, gch.rvalue(st[2], 0)))
    for g, (f, bb) in sorted(pairs.items()):
        res.instance(R2)
        if g in direct:
            if direct[g][0] != f:
                res.add(Finding(R2, "C07.field-correspondence|%s" % g, "Block::validate compares self.%s with cv.%s but Block::create fills it from cv.%s" % (g, f, direct[g][0]), cr.loc(direct[g][1])))
            else:
                res.sample({"field": g, "consensus_value": f, "verdict": "producer and validator agree"})
        elif g in assigned and g in producer_lin and producer_lin[g][0] is not None and len(gen_defs.get(f, [])) == 1 and gen_defs[f][0] is not None:
            # the producer computes the field itself from fields it has already filled from the consensus values: substitute those,
            # and compare with the one definition of cv.<f> in generate_consensus_values
            plin, pbb = producer_lin[g]
            if plin == {"cv." + f: 1} or plin == gen_defs[f][0]:
                res.sample({"field": g, "consensus_value": f, "producer": plin, "generator": gen_defs[f][0], "verdict": "producer recomputes the generator's definition"})
            else:
                res.add(Finding(R2, "C07.field-correspondence|%s|recomputed" % g, "Block::validate compares self.%s with cv.%s (= %s in generate_consensus_values) but Block::create "
                                "produces it as %s: the two differ for some blocks, and the producer's own block is then refused" % (g, f, gen_defs[f][0], plin), cr.loc(pbb)))
        elif g in assigned:
            res.not_decided.append("Block.%s is validated against cv.%s and produced by a derived expression in Block::create (not decided)" % (g, f))
        else:
            # fields accumulated by Block::generate from the transactions (rebroadcast commitment) are produced there
            gen = prog.body(BLK + "generate")
            produced = any(st[0] == "=" and place_has_field(st[1], "block::Block", g) is not None for blk in gen.blocks for st in blk["s"]) or \
                any(t["k"] == "call" and place_has_field(t["dest"], "block::Block", g) is not None for _, t in gen.calls())
            if produced:
                res.sample({"field": g, "consensus_value": f, "verdict": "produced by Block::generate from the transactions"})
            else:
                res.add(Finding(R2, "C07.field-correspondence|%s|unproduced" % g, "Block::validate compares self.%s with cv.%s but the producer never sets it" % (g, f), vb.loc(bb)))
    for g, (lin, bb) in sorted(derived_v.items()):
        res.instance(R2)
        if g in derived_c:
            if derived_c[g][0] != lin:
                res.add(Finding(R2, "C07.field-correspondence|%s|derived" % g, "Block.%s is validated against %s but produced as %s" % (g, lin, derived_c[g][0]), cr.loc(derived_c[g][1])))
            else:
                res.sample({"field": g, "formula": lin, "verdict": "producer and validator compute the same linear form"})
        else:
            res.not_decided.append("Block.%s: validator formula %s, producer expression does not normalise" % (g, lin))
    # R3: the producer's own double-spend scan covers the block it hands out: after the scan that fills
    # slips_spent_this_block nothing is added to block.transactions any more (the validator scans every transaction,
    # including the rebroadcast and fee transactions the producer appends)
    from ..fields import FieldAnalysis
    fa = FieldAnalysis(prog)
    scan_blocks = {s_[1] for s_ in fa.sites(cr, "block::Block", "slips_spent_this_block") if s_[3] in ("insert", "elem", "replace", "unknown")}
    tx_adds = {s_[1] for s_ in fa.sites(cr, "block::Block", "transactions") if s_[3] in ("insert", "replace", "unknown")}
    res.instance(R3)
    if not scan_blocks:
        res.add(Finding(R3, "C07.scan-covers-block|no-scan", "Block::create no longer scans the transactions it bundles for inputs spent twice (the validator rejects such a block)", cr.loc(0)))
    else:
        late = None
        for sb in sorted(scan_blocks):
            reach = cr.reachable(sb)
            hit = sorted(x for x in tx_adds if x in reach and x != sb and not cr.dominates(x, sb))
            if hit:
                late = (sb, hit[0])
                break
        if late:
            res.add(Finding(R3, "C07.scan-covers-block|transactions-added-after-scan",
                            "Block::create adds transactions to the block after its double-spend scan: the rebroadcast / fee transactions appended later are "
                            "not covered, so the producer can emit a block that Block::validate rejects", cr.loc(late[1]), {"scan": cr.loc(late[0])}))
        else:
            res.sample({"rule": R3, "scan": sorted(set(cr.loc(x) for x in scan_blocks))[:3], "additions": sorted(set(cr.loc(x) for x in tx_adds))[:6],
                        "verdict": "nothing is added to block.transactions after the scan"})

    # R4: the validator demands exactly one fee transaction when cv.fee_transaction is Some and none otherwise (C02.payout-exact);
    # the producer must therefore append it under that condition alone: from every edge on which cv.fee_transaction is known to be
    # Some, no exit of Block::create is reachable without the push of that transaction
    from ..expr import strip as _strip
    crch = Chaser(cr)
    some_edges = set()
    for bb, blk in enumerate(cr.blocks):
        t = blk["t"]
        if t["k"] != "switch":
            continue
        e, neg = gate.unwrap_not(crch.origin(t["discr"]))
        zero = [tgt for v, tgt in t["targets"] if v == 0]
        one = [tgt for v, tgt in t["targets"] if v == 1]
        other = t["otherwise"]
        if e[0] == "call" and e[1] in ("std::option::Option::is_some", "std::option::Option::is_none") and e[2] and has_field(e[2][0], "ConsensusValues", "fee_transaction"):
            false_t = zero if zero else ([other] if one else [])
            true_t = one if one else ([other] if zero else [])
            if neg:
                false_t, true_t = true_t, false_t
            for tgt in (true_t if e[1].endswith("is_some") else false_t):
                some_edges.add((bb, tgt))
        elif e[0] == "discr" and _strip(e[1])[0] == "field" and _strip(e[1])[3] == "fee_transaction" and has_field(e[1], "ConsensusValues", "fee_transaction"):
            some_edges |= gate.variant_edges(cr, bb, 1)
    adds = set()

    def from_fee_tx(e, depth=0):
        """the value is (a local initialised from) cv.fee_transaction"""
        if has_field(e, "ConsensusValues", "fee_transaction"):
            return True
        x = _strip(e)
        if x[0] == "local" and depth < 3:
            for d in cr.defs(x[1]):
                if d[0] == "stmt" and from_fee_tx(crch.rvalue(d[3], 0), depth + 1):
                    return True
                if d[0] == "call" and any(from_fee_tx(crch.origin(a), depth + 1) for a in d[2]["args"]):
                    return True
        return False
    for bb, t in cr.calls():
        n = call_name(t) or ""
        if n.rsplit("::", 1)[-1] in ("push", "add_transaction", "insert", "extend", "append") and any(
                from_fee_tx(crch.origin(a)) for a in t["args"][1:]):
            adds.add(bb)
    res.instance(R4)
    if not some_edges or not adds:
        res.add(Finding(R4, "C07.fee-tx-presence|anchors", "Block::create: no test of cv.fee_transaction / no append of the fee transaction found (%d tests, %d appends)"
                        % (len(some_edges), len(adds)), cr.loc(0)))
    else:
        bad = None
        for (sb, tgt) in sorted(some_edges):
            pth = cr.find_path(tgt, cr.return_blocks(), blocked=adds)
            if pth:
                bad = (sb, pth)
                break
        if bad:
            res.add(Finding(R4, "C07.fee-tx-presence|skipped", "Block::create can finish without appending the fee transaction although cv.fee_transaction is Some: the validator "
                            "(which requires exactly that transaction) rejects the node's own block", cr.loc(bad[0]), {"path": [cr.loc(x) for x in bad[1][:12]]}))
        else:
            res.sample({"rule": R4, "tests": [cr.loc(sb) for sb, _ in some_edges], "appends": [cr.loc(x) for x in adds], "verdict": "appended whenever expected"})
    # R5: Block::create signs the fee transaction, and signing / Transaction::generate number the outputs by position. The validator
    # hashes the *expected* fee transaction as generate_consensus_values built it, so every output added there must carry
    # slip_index == number of outputs added before it - on every path (which outputs exist depends on the payouts). Decided by
    # enumerating the paths of the construction region with the integer values of the counters it uses.
    GCVP = BLK + "generate_consensus_values::{closure#0}"
    gb = prog.body(GCVP)
    if gb is None:
        raise LookupError("generate_consensus_values not found")
    gch = Chaser(gb)
    fee_local = None
    end_bb = None
    end_blocks = set()
    for bb, blk in enumerate(gb.blocks):
        for st in blk["s"]:
            if st[0] == "=" and st[1][1] and any(isinstance(pr, list) and pr[0] == "f" and pr[3] == "fee_transaction" and pr[2].endswith("ConsensusValues") for pr in st[1][1]):
                rv = st[2]
                if rv[0] == "use" and rv[1][0] in ("mv", "cp") and not rv[1][1][1]:
                    for d in gb.defs(rv[1][1][0]):       # `_tmp = Some(move transaction); cv.fee_transaction = move _tmp`
                        if d[0] == "stmt" and d[3][0] == "agg":
                            rv = d[3]
                if rv[0] == "agg" and rv[1][0] == "adt" and rv[1][2] == "Some" and rv[2] and rv[2][0][0] in ("mv", "cp") and not rv[2][0][1][1]:
                    fl = rv[2][0][1][0]
                    for _ in range(6):       # `_t = move transaction; Some(move _t)`
                        ds = gb.defs(fl)
                        if len(ds) == 1 and ds[0][0] == "stmt" and ds[0][3][0] == "use" and ds[0][3][1][0] in ("mv", "cp") and not ds[0][3][1][1][1]:
                            fl = ds[0][3][1][1][0]
                        else:
                            break
                    fee_local, end_bb = fl, bb
                    end_blocks.add(bb)
    res.instance(R5)
    if fee_local is None:
        res.add(Finding(R5, "C07.fee-slip-index|anchors", "generate_consensus_values: the statement cv.fee_transaction = Some(transaction) was not found", gb.loc(0)))
    else:
        starts = [d[1] for d in gb.defs(fee_local)]
        ADD = CORE + "consensus::transaction::Transaction::add_to_slip"

        def val(op, ints):
            if op[0] == "k":
                return op[1].get("v") if isinstance(op[1].get("v"), int) else None
            if op[0] in ("cp", "mv"):
                pl = op[1]
                if not pl[1]:
                    return ints.get(pl[0])
                if len(pl[1]) == 1 and isinstance(pl[1][0], list) and pl[1][0][0] == "f" and pl[1][0][3] == "0":
                    return ints.get(pl[0])
            return None
        problems = {}
        undecided = set()
        paths = [0]

        def walk_paths(bb, ints, slips, alias, adds, seen):
            if paths[0] > 4000 or bb in seen:
                return
            seen = seen | {bb}
            ints, slips, alias = dict(ints), dict(slips), dict(alias)
            for st in gb.stmts(bb):
                if st[0] != "=":
                    continue
                dst, rv = st[1], st[2]
                if not dst[1]:
                    v = None
                    if rv[0] == "use":
                        v = val(rv[1], ints)
                        if rv[1][0] in ("cp", "mv") and not rv[1][1][1] and rv[1][1][0] in alias:
                            alias[dst[0]] = alias[rv[1][1][0]]
                    elif rv[0] == "cast":
                        v = val(rv[2], ints)
                    elif rv[0] == "bin" and rv[1].startswith(("Add", "Sub")):
                        a_, b_ = val(rv[2], ints), val(rv[3], ints)
                        v = (a_ + b_ if rv[1].startswith("Add") else a_ - b_) if a_ is not None and b_ is not None else None
                    elif rv[0] == "ref" and not rv[2][1]:
                        alias[dst[0]] = alias.get(rv[2][0], rv[2][0])
                    ints[dst[0]] = v
                elif len(dst[1]) == 1 and isinstance(dst[1][0], list) and dst[1][0][0] == "f" and dst[1][0][3] == "slip_index" and dst[1][0][2].endswith("slip::Slip"):
                    slips[dst[0]] = val(rv[1], ints) if rv[0] == "use" else (val(rv[2], ints) if rv[0] == "cast" else None)
                    slips[("set", dst[0])] = True
            t = gb.term(bb)
            if t["k"] == "call":
                name = t.get("res") or t.get("callee") or ""
                if name == ADD and len(t["args"]) == 2:
                    recv = t["args"][0]
                    rl = recv[1][0] if recv[0] in ("cp", "mv") else None
                    if alias.get(rl, rl) == fee_local:
                        a1 = t["args"][1]
                        sl = a1[1][0] if a1[0] in ("cp", "mv") else None
                        sl = alias.get(sl, sl)
                        got = slips.get(sl)
                        if not slips.get(("set", sl)):
                            got = 0          # Slip::default()
                        if got is None:
                            undecided.add(bb)
                        elif got != adds:
                            problems.setdefault(bb, (got, adds))
                        adds += 1
                elif (call_name(t) or "").endswith("Clone::clone") and t["args"] and not t["dest"][1]:
                    a0 = t["args"][0]
                    src = a0[1][0] if a0[0] in ("cp", "mv") else None
                    alias[t["dest"][0]] = alias.get(src, src)
                elif not t["dest"][1]:
                    ints[t["dest"][0]] = None
                    if (call_name(t) or "").endswith("Default::default"):
                        slips.pop(t["dest"][0], None)
                        slips.pop(("set", t["dest"][0]), None)
            if bb in end_blocks:
                paths[0] += 1
                return
            for s2 in gb.succ(bb):
                walk_paths(s2, ints, slips, alias, adds, seen)
        import sys as _sys
        _sys.setrecursionlimit(max(_sys.getrecursionlimit(), 20000))
        for sb in starts:
            walk_paths(sb, {}, {}, {}, 0, frozenset())
        if problems:
            bb, (got, want) = sorted(problems.items())[0]
            res.add(Finding(R5, "C07.fee-slip-index|position", "generate_consensus_values can add an output to the expected fee transaction with slip_index %d at position %d: the "
                            "producer's signed copy is renumbered by position, so the validator's hash of the expected transaction differs and the node rejects its "
                            "own block" % (got, want), gb.loc(bb)))
        elif undecided:
            res.not_decided.append("C07.fee-slip-index: slip_index value not a tracked integer at %s" % [gb.loc(x) for x in sorted(undecided)][:3])
        elif paths[0] == 0:
            res.add(Finding(R5, "C07.fee-slip-index|anchors", "no path from the creation of the fee transaction to cv.fee_transaction = Some(..) was found", gb.loc(end_bb)))
        else:
            res.sample({"rule": R5, "paths": paths[0], "verdict": "on every path each output's slip_index equals its position"})
    # producer and validator agree only if cached per-transaction values are the ones the validator recomputes
    from ._include import include
    include(res, prog, tier, extra, "c13", ["C13.compare", "C13.derive"],
            "the rebroadcast set the producer builds is the one the validator re-derives only if both commit to and count the same things")
    include(res, prog, tier, extra, "c14", ["C14.cached-work"],
            "the producer bundles with cached routing work; the validator recomputes it: a stale cache makes the node reject its own block")
    res.explanation = (
        "Decides that producer and validator are siblings of one computation: same callee for consensus values and for the required work (with matching argument "
        "provenance), and for every header field the validator compares with a consensus value the producer fills that field from the same consensus value (directly, or by "
        "the same linear form over cv.* and parent fields). It does not decide equality of the computed values across nodes and inputs (floating point, rebroadcast "
        "sets, lottery): the substance of C07 is dynamic.")
    res.assumptions = ["a field is 'directly' produced when the assigned value is exactly one ConsensusValues field"]
    return res
