"""Who-may tables and extracted helpers.

A table that names the bodies allowed to do something (insert into an index, mark a peer connected, ...) must not trip when
the statement is moved, unchanged, into a private helper. A body is treated as covered by a table entry when every one of its
non-test call sites lies in a covered body (transitively, a few levels): the helper can then only run as part of an allowed body.
"""
import re

_CL = re.compile(r"(::\{closure#\d+\})+$")


def root(path):
    return _CL.sub("", path)


def callers_of(prog):
    out = {}
    for cb in prog.all_bodies():
        if "::tests::" in cb.path or "/test/" in cb.file:
            continue
        for _, t in cb.calls():
            tgt = t.get("res") or t.get("callee")
            if tgt:
                out.setdefault(root(tgt), set()).add(root(cb.path))
    return out


def helper_closure(prog, allowed, depth=3):
    """{root path: the allowed root it is covered by}"""
    cov = {root(a): root(a) for a in allowed}
    callers = callers_of(prog)
    known = {root(p) for p in prog.bodies}
    for _ in range(depth):
        changed = False
        for tgt, cs in callers.items():
            if tgt in cov or not cs or tgt not in known:
                continue
            if all(c in cov for c in cs):
                cov[tgt] = sorted({cov[c] for c in cs})[0]
                changed = True
        if not changed:
            break
    return cov
