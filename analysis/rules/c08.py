"""C08 (clause) - routing work gates block production.

R1 Block::validate: when a previous block exists, accept paths pass the non-rejecting edge of
   self.total_work vs return_routing_work_needed_to_produce_block_in_nolan(prev.burnfee, self.timestamp, prev.timestamp, heartbeat)
R2 a golden ticket is accepted only through the true edge of GoldenTicket::validate(prev.difficulty) on a ticket
   re-created against prev.hash
R3 Transaction::validate: a false validate_routing_path reaches no `return true`
"""
from .. import gate
from ..expr import Chaser, call_name, has_call, has_field, show, walk
from ..report import Finding, Result
from ..paths import Explorer, describe_path
from ._blockvalidate import CORE, BlockValidate

WORK_FN = "BurnFee::return_routing_work_needed_to_produce_block_in_nolan"


def run(prog, tier, extra=None):
    res = Result("C08", "other")
    R1 = res.rule("C08.routing-work", "accept paths with a previous block pass total_work >= work needed(prev.burnfee, timestamps, heartbeat)", floor=1)
    R2 = res.rule("C08.golden-ticket", "a carried golden ticket passes GoldenTicket::validate(prev.difficulty) re-targeted at prev.hash", floor=1)
    R5 = res.rule("C08.winner-first-match", "the winning transaction of the router lottery is the first one, in block order, whose cumulative fees reach the winning nolan", floor=1)
    R4 = res.rule("C08.halving", "routing work halves exactly len(path) - 1 times", floor=1)
    R6 = res.rule("C08.work-misordered", "the required-work function answers with the impossible amount unless the block's timestamp is later than its parent's", floor=1)
    R7 = res.rule("C08.unrouted-types-no-work", "a transaction type whose routing path is never verified (block-made: ATR, Fee, Issuance, SPV) contributes no routing work", floor=4)
    R3 = res.rule("C08.routing-path", "a false validate_routing_path rejects the transaction", floor=1)
    bv = BlockValidate(prog)
    b, ch = bv.body, bv.ch

    # no previous block: the None edge of the lookup of previous_block_hash in blockchain.blocks
    no_prev = set()
    for bb, blk in enumerate(b.blocks):
        t = blk["t"]
        if t["k"] == "switch":
            e = ch.origin(t["discr"])
            if e[0] == "discr" and bv.is_prev(e[1]) and has_field(e[1], "block::Block", "previous_block_hash"):
                no_prev |= gate.variant_edges(b, bb, 0)

    def work_pair(a, c):
        if not bv.is_self_field(a, "total_work"):
            return False
        if not has_call(c, WORK_FN):
            return False
        return True
    sites = gate.order_edges(b, ch, work_pair)
    res.instance(R1, len(sites))
    if not sites:
        res.add(Finding(R1, "C08.routing-work|no-comparison", "Block::validate never compares self.total_work with the routing work needed", b.loc(0)))
    good = set()
    for s in sites:
        # self.total_work < needed rejects; the edge on which total_work >= needed (or >) is the good one
        if s["op"] in ("Lt", "Le"):
            good |= s["false_edges"]
        else:
            good |= s["true_edges"]
        # argument provenance of the work function
        call = [x for x in __import__("analysis.expr", fromlist=["walk"]).walk(s["b"]) if x[0] == "call" and x[1].endswith(WORK_FN)]
        if call:
            a = call[0][2]
            ok = (len(a) == 4 and bv.is_prev(a[0]) and has_field(a[0], "block::Block", "burnfee")
                  and bv.is_self_field(a[1], "timestamp") and bv.is_prev(a[2]) and has_field(a[2], "block::Block", "timestamp")
                  and has_field(a[3], None, "heartbeat_interval"))
            if not ok:
                res.add(Finding(R1, "C08.routing-work|arguments",
                                "work needed is not computed from (previous.burnfee, self.timestamp, previous.timestamp, heartbeat_interval): %s" % [show(x)[:60] for x in a],
                                b.loc(s["bb"])))
    if sites:
        path, states = bv.must_pass(good, extra_exempt=no_prev)
        if path:
            res.add(Finding(R1, "C08.routing-work|bypass", "Block::validate returns true for a block with a known parent without passing the routing-work comparison",
                            b.loc(sites[0]["bb"]), {"path": bv.describe(path)}))
        else:
            res.sample({"rule": R1, "comparison": ["%s: total_work %s needed" % (b.loc(s["bb"]), s["op"]) for s in sites],
                        "no_previous_block_exits": len(no_prev), "states": states, "verdict": "must-pass holds"})

    # R2
    def is_gt_validate(e):
        if e[0] != "call" or not e[1].endswith("golden_ticket::GoldenTicket::validate") or len(e[2]) != 2:
            return False
        ticket, diff = e[2]
        return (has_call(ticket, "GoldenTicket::create") and bv.is_prev(ticket) and has_field(ticket, "block::Block", "hash")
                and bv.is_prev(diff) and has_field(diff, "block::Block", "difficulty"))
    gt = gate.bool_switch_edges(b, ch, is_gt_validate)
    res.instance(R2, len(gt["sites"]))
    no_gt = set()
    for bb, blk in enumerate(b.blocks):
        t = blk["t"]
        if t["k"] == "switch":
            e = ch.origin(t["discr"])
            if e[0] == "discr" and bv.is_cv_field(e[1], "gt_index"):
                no_gt |= gate.variant_edges(b, bb, 0)
    if not gt["sites"]:
        res.add(Finding(R2, "C08.golden-ticket|no-site", "Block::validate has no switch on GoldenTicket::create(previous.hash, ..).validate(previous.difficulty)", b.loc(0)))
    else:
        path, states = bv.must_pass(gt["true"], extra_exempt=no_prev | no_gt)
        if path:
            res.add(Finding(R2, "C08.golden-ticket|bypass", "Block::validate returns true for a block carrying a golden ticket without passing its validation against the parent",
                            b.loc(gt["sites"][0]), {"path": bv.describe(path)}))
        else:
            res.sample({"rule": R2, "site": [b.loc(x) for x in gt["sites"]], "no_ticket_exits": len(no_gt), "states": states, "verdict": "must-pass holds"})

    # R6: "required work falls as time since the parent passes" presupposes elapsed time = own - parent timestamp > 0. The work function
    # is the only place that orders the two timestamps: every return that is not the impossible amount (>= 10^19 nolan, more than can
    # exist) must lie behind an edge on which parent < own is established by comparing the two parameters themselves (not |a - b|).
    wf = [b_ for b_ in prog.all_bodies() if b_.path.endswith("burnfee::BurnFee::return_routing_work_needed_to_produce_block_in_nolan")]
    if not wf:
        raise LookupError("BurnFee::return_routing_work_needed_to_produce_block_in_nolan not found")
    wfb = wf[0]
    wch = Chaser(wfb)
    def _ts(e, word):
        return any(y[0] == "param" and word in (y[2] or "") and "timestamp" in (y[2] or "") for y in walk(e)) and not any(y[0] in ("call", "via", "bin") for y in walk(e))
    ordered = set()
    for c in gate.order_edges(wfb, wch, lambda a, b_: _ts(a, "previous") and _ts(b_, "current")):
        if c["op"] == "Lt":
            ordered |= c["true_edges"]
        elif c["op"] == "Ge":
            ordered |= c["false_edges"]
    # `current.checked_sub(previous)` is None exactly when previous > current; `.filter(|e| *e > 0)` adds the equal case
    for bb, blk in enumerate(wfb.blocks):
        t_ = blk["t"]
        if t_["k"] != "switch":
            continue
        e_ = wch.origin(t_["discr"])
        if e_[0] == "discr":
            subs = [y for y in walk(e_[1]) if y[0] in ("call", "via") and y[1].rsplit("::", 1)[-1] == "checked_sub" and y[0] == "call" and len(y[2]) == 2
                    and _ts(y[2][0], "current") and _ts(y[2][1], "previous")]
            if subs:
                ordered |= gate.variant_edges(wfb, bb, 1)
    impossible = {bb for bb, blk in enumerate(wfb.blocks) for st in blk["s"]
                  if st[0] == "=" and st[1][0] == 0 and not st[1][1] and st[2][0] == "use" and st[2][1][0] == "k" and isinstance(st[2][1][1].get("v"), int) and st[2][1][1]["v"] >= 10 ** 19}
    res.instance(R6)
    r6 = wfb.reachable(0, deleted_edges=ordered, blocked=impossible)
    esc = sorted(x for x in wfb.return_blocks() if x in r6)
    # a return block reached only through an `impossible` assignment is blocked above; one shared return block needs the predecessor test
    esc = [x for x in esc if any(p_ in r6 and p_ not in impossible for p_ in wfb.pred(x)) or x == 0]
    if not ordered:
        res.add(Finding(R6, "C08.work-misordered|no-order-test", "the required-work function never compares the parent's timestamp with the block's own: a block dated before its parent "
                        "is measured by |difference| (or a wrapped difference) and can need little or no routing work", wfb.loc(0)))
    elif esc:
        res.add(Finding(R6, "C08.work-misordered|bypass", "the required-work function can return an ordinary amount without having established parent timestamp < own timestamp", wfb.loc(esc[0])))
    else:
        res.sample({"rule": R6, "ordered_edges": len(ordered), "impossible_returns": [wfb.loc(x) for x in sorted(impossible)], "verdict": "ordinary amounts only behind parent < own"})
    # R7: "routing work delivered through cryptographically valid paths". Transaction::validate checks validate_routing_path for the
    # user types only; the block-made types skip it (and no hash covers a path attached to them). Block::generate nevertheless sums
    # total_work_for_me over every transaction, so generate_total_work itself must give those types zero - otherwise a producer attaches
    # unsigned hops to the ATR transactions of its own block and meets any work requirement for free.
    from ..fields import place_has_field as _phf7
    gw = prog.body(CORE + "consensus::transaction::Transaction::generate_total_work")
    if gw is None:
        raise LookupError("Transaction::generate_total_work not found")
    chw7 = Chaser(gw)
    nonzero7 = set()
    for bb, blk in enumerate(gw.blocks):
        for st in blk["s"]:
            if st[0] == "=" and _phf7(st[1], "transaction::Transaction", "total_work_for_me") is not None:
                rv = st[2]
                is_zero = rv[0] == "use" and rv[1][0] == "k" and rv[1][1].get("v") == 0
                if not is_zero:
                    nonzero7.add(bb)
    def _credits(body, variant, depth=0):
        """block of `body` where a possibly non-zero amount of work is produced for this transaction type, or None"""
        chb_ = Chaser(body)
        nz = {}
        for bb_, blk_ in enumerate(body.blocks):
            for st_ in blk_["s"]:
                is_store = st_[0] == "=" and _phf7(st_[1], "transaction::Transaction", "total_work_for_me") is not None
                is_ret = st_[0] == "=" and st_[1][0] == 0 and not st_[1][1] and depth > 0
                if not (is_store or is_ret):
                    continue
                rv_ = st_[2]
                if rv_[0] == "use" and rv_[1][0] == "k" and rv_[1][1].get("v") == 0:
                    continue
                nz[bb_] = None
                if rv_[0] == "use" and rv_[1][0] in ("cp", "mv") and not rv_[1][1][1]:
                    # the value of a helper call: judge the helper for this type
                    for d_ in body.defs(rv_[1][1][0]):
                        if d_[0] == "call":
                            hb_ = prog.bodies.get(d_[2].get("res") or d_[2].get("callee") or "")
                            if hb_ is not None and not hb_.is_promoted and hb_.path.startswith("saito_") and depth < 2:
                                nz[bb_] = hb_
            t_ = blk_["t"]
            if t_["k"] == "call" and (_phf7(t_["dest"], "transaction::Transaction", "total_work_for_me") is not None or (depth > 0 and t_["dest"][0] == 0 and not t_["dest"][1])):
                hb_ = prog.bodies.get(t_.get("res") or t_.get("callee") or "")
                nz[bb_] = hb_ if (hb_ is not None and not hb_.is_promoted and hb_.path.startswith("saito_") and depth < 2) else None
        kn_ = {}
        dd_ = gate.edges_not_taken_when(prog, body, chb_, "transaction::TransactionType", "transaction_type", variant, known=kn_)
        hits_ = Explorer(body, fixed_locals=dict(kn_)).explore(0, deleted_edges=dd_, accept=lambda bb, env: "work" if bb in nz else None)
        for _k, path_ in sorted((hits_ or {}).items()):
            hb_ = nz.get(path_[-1])
            if hb_ is None:
                return body.loc(path_[-1])
            inner = _credits(hb_, variant, depth + 1)
            if inner:
                return inner
        # Explorer reports one path per outcome kind: check the remaining stores reachable as well
        reach_ = body.reachable(0, deleted_edges=dd_)
        for bb_, hb_ in nz.items():
            if bb_ in reach_ and hb_ is not None:
                inner = _credits(hb_, variant, depth + 1)
                if inner and not hits_:
                    return inner
        return None
    gw7 = prog.body(CORE + "consensus::transaction::Transaction::generate_total_work")
    for v7 in ("ATR", "Fee", "Issuance", "SPV"):
        res.instance(R7)
        hit7 = _credits(gw7, v7)
        if hit7:
            res.add(Finding(R7, "C08.unrouted-types-no-work|%s" % v7, "Transaction::generate_total_work can credit routing work for a transaction of type %s, whose routing path Transaction::validate "
                            "never verifies: hops with made-up signatures on such transactions count towards the block's work requirement" % v7, hit7))
        else:
            res.sample({"rule": R7, "type": v7, "verdict": "no work credited"})
    # R3
    tv = prog.body(CORE + "consensus::transaction::Transaction::validate")
    for s in gate.verdict_sites(tv, lambda n: n.endswith("Transaction::validate_routing_path")):
        res.instance(R3)
        found, ex = gate.check_gate(tv, s, gate.make_accept(tv, return_true=True), prog.units)
        if found:
            res.add(Finding(R3, "C08.routing-path|ungated", "Transaction::validate can return true although validate_routing_path returned false", tv.loc(s["bb"])))
        else:
            res.sample({"rule": R3, "site": tv.loc(s["bb"]), "verdict": "gates"})
    # every user-originated type goes through it: routing work is summed over all transactions of a block whatever their type,
    # so a type whose path is never checked (golden ticket, bound, ...) lets the block producer credit himself with forged hops
    rp_sites = {bb for bb, t in tv.calls() if (call_name(t) or "").endswith("Transaction::validate_routing_path")}
    if rp_sites:
        res.instance(R3)
        tch = Chaser(tv)
        RP_EXEMPT = {"Fee", "SPV", "ATR", "Issuance"}     # staking transactions can pay fees and carry hops like any user transaction
        exempt_rp, rp_priv = gate.enum_compare_edges(prog, tv, tch, "transaction::TransactionType", "transaction_type", RP_EXEMPT)
        found_rp = Explorer(tv).explore(0, deleted_edges=exempt_rp, blocked=rp_sites, accept=gate.make_accept(tv, return_true=True))
        if found_rp:
            kind, path = sorted(found_rp.items())[0]
            res.add(Finding(R3, "C08.routing-path|type-bypass", "Transaction::validate can return true for a user-originated transaction type without calling validate_routing_path: "
                            "its hops count as routing work (Block::generate sums every transaction) although their signatures were never checked",
                            tv.loc(path[-1]), {"path": describe_path(tv, path)}))
        else:
            res.sample({"rule": R3, "sites": [tv.loc(x) for x in sorted(rp_sites)], "exempt_types": sorted(set(v for _, v in rp_priv)),
                        "verdict": "every other accept path calls validate_routing_path"})
    # and the path check itself verifies every hop signature and contiguity: the per-hop closure's verdicts gate
    vr = [x for x in prog.all_bodies() if x.path.startswith(CORE + "consensus::transaction::Transaction::validate_routing_path")]
    for body in vr:
        for s in gate.verdict_sites(body, lambda n: n.endswith("crypto::verify")):
            res.instance(R3)
            found, ex = gate.check_gate(body, s, gate.make_accept(body, return_true=True), prog.units)
            if found:
                res.add(Finding(R3, "C08.routing-path|hop-signature", "validate_routing_path can return true although a hop signature does not verify", body.loc(s["bb"])))
            else:
                res.sample({"rule": R3, "site": body.loc(s["bb"]), "verdict": "hop signature gates"})

    # ... and no hop is waved through: the per-hop closure cannot say "fine" without the true edge of verify(sig ++ to, hop.sig, hop.from)
    for body in vr:
        if body.kind != "Closure" and body.ty(0)["s"] == "bool" and not any(x.kind == "Closure" for x in vr):
            # explicit loop form: `for (index, hop) in self.path.iter().enumerate() { if !verify(..) { return false } .. } true`
            chv = Chaser(body)
            ver = gate.bool_switch_edges(body, chv, lambda e: e[0] == "call" and e[1].endswith("crypto::verify") and len(e[2]) == 3
                                         and has_field(e[2][1], "hop::Hop", "sig") and has_field(e[2][2], "hop::Hop", "from"))
            heads = [bb for bb, t in body.calls() if call_name(t) == "std::iter::Iterator::next" and t["args"] and has_field(chv.origin(t["args"][0]), "transaction::Transaction", "path")]
            # only the outermost loops over the path (a nested loop that merely logs the hops is not a validation pass)
            loops_of = {hb: body.natural_loop(body.innermost_loop_containing([hb])) if body.innermost_loop_containing([hb]) is not None else set() for hb in heads}
            heads = [hb for hb in heads if not any(o != hb and hb in loops_of[o] and loops_of[o] != loops_of[hb] for o in heads)]
            from ..paths import Explorer as _ExH
            heads = [hb for hb in heads if _ExH(body).explore(hb, accept=gate.make_accept(body, return_true=True))]      # a loop on a rejecting path accepts nothing
            res.instance(R3)
            if not ver["sites"] or not heads:
                res.add(Finding(R3, "C08.routing-path|no-hop-verify", "validate_routing_path does not verify hop.sig against hop.from for the hops of self.path", body.loc(0)))
                continue
            bad = None
            for hb in heads:
                sw = body.term(hb).get("t")
                hops = 0
                while sw is not None and body.term(sw)["k"] != "switch" and hops < 6:
                    sw = body.term(sw).get("t")
                    hops += 1
                if sw is None:
                    continue
                for (_, tgt) in gate.variant_edges(body, sw, 1):
                    pth = body.find_path(tgt, {hb} | set(body.return_blocks()), deleted_edges=ver["true"] | ver["false"])
                    if pth:
                        bad = pth
            if bad:
                res.add(Finding(R3, "C08.routing-path|hop-unverified", "validate_routing_path can finish an iteration over a hop without having branched on the verification of "
                                "its signature", body.loc(bad[0])))
            else:
                res.sample({"rule": R3, "site": [body.loc(x) for x in ver["sites"]], "verdict": "every iteration branches on verify(hop.sig, hop.from)"})
            continue
        if not (body.kind == "Closure" and body.ty(0)["s"] == "bool"):
            continue
        chv = Chaser(body)
        ver = gate.bool_switch_edges(body, chv, lambda e: e[0] == "call" and e[1].endswith("crypto::verify") and len(e[2]) == 3
                                     and has_field(e[2][1], "hop::Hop", "sig") and has_field(e[2][2], "hop::Hop", "from"))
        res.instance(R3)
        if not ver["sites"]:
            res.add(Finding(R3, "C08.routing-path|no-hop-verify", "validate_routing_path's per-hop check does not verify hop.sig against hop.from", body.loc(0)))
            continue
        pass
        found = Explorer(body).explore(0, deleted_edges=ver["true"], accept=gate.make_accept(body, return_true=True))
        if found:
            kind, pth = sorted(found.items())[0]
            res.add(Finding(R3, "C08.routing-path|hop-unverified", "validate_routing_path accepts a hop on a path that does not verify its signature: the hop's recipient (and with it "
                            "the routing work and the router payout) can be rewritten by anyone", body.loc(pth[-1])))
        else:
            res.sample({"rule": R3, "site": [body.loc(x) for x in ver["sites"]], "verdict": "every accepted hop passed verify"})

    # R4: the routing work credited to the block creator halves exactly once per hop after the first: the loop that halves
    # runs len(path) - 1 times (iterator-length algebra: a..b -> b - a, windows(n) -> len - (n - 1), skip(k) -> - k)
    from ..linear import Lin, Linearizer
    gw = prog.body(CORE + "consensus::transaction::Transaction::generate_total_work")
    if gw is None:
        raise LookupError("Transaction::generate_total_work not found")
    def _has_halving(b_):
        return any(st[0] == "=" and st[2][0] == "bin" and st[2][1] in ("Div", "Shr") and st[2][3][0] == "k" and st[2][3][1].get("v") in (2, 1)
                   for blk in b_.blocks for st in blk["s"])
    gw_entry = gw
    if not _has_halving(gw):
        # `self.total_work_for_me = self.calculate_work_delivered_to(key)`: the loop moved into a private helper
        for _, t_ in gw.calls():
            hb_ = prog.bodies.get(t_.get("res") or t_.get("callee") or "")
            if hb_ is not None and not hb_.is_promoted and hb_.path.startswith(CORE + "consensus::transaction::Transaction::") and _has_halving(hb_):
                gw = hb_
                break
    chw = Chaser(gw)
    lzw = Linearizer(gw, chw)
    halving = set()
    for bb, blk in enumerate(gw.blocks):
        for st in blk["s"]:
            if st[0] == "=" and st[2][0] == "bin" and st[2][1] in ("Div", "Shr"):
                k = st[2][3]
                if k[0] == "k" and k[1].get("v") in (2, 1):
                    halving.add(bb)
    res.instance(R4)

    def count(e, depth=0):
        """number of items an iterator expression yields, as a Lin over len(..) atoms (None = unknown)"""
        if depth > 12:
            return None
        x = e
        while x[0] in ("ref", "deref"):
            x = x[1]
        if x[0] == "via" and x[1] in ("std::iter::IntoIterator::into_iter", "std::slice::iter", "std::slice::iter_mut", "std::iter::Iterator::enumerate"):
            inner = x[2]
            y = inner
            while y[0] in ("ref", "deref"):
                y = y[1]
            if y[0] == "agg" or y[0] in ("call",) or (y[0] == "via" and y[1] != "std::ops::Deref::deref"):
                c = count(y, depth + 1)
                if c is not None:
                    return c
            return lzw.length(inner)
        if x[0] == "agg" and x[1][0] == "adt" and x[1][1].endswith("ops::Range") and len(x[2]) == 2:
            a, b_ = lzw.lin(x[2][0]), lzw.lin(x[2][1])
            return (b_ - a) if a is not None and b_ is not None else None
        if x[0] == "call":
            last = x[1].rsplit("::", 1)[-1]
            if last == "skip" and len(x[2]) == 2:
                c, k = count(x[2][0], depth + 1), lzw.lin(x[2][1])
                return (c - k) if c is not None and k is not None else None
            if last == "windows" and len(x[2]) == 2:
                L, n = lzw.length(x[2][0]), lzw.lin(x[2][1])
                return (L - n + Lin(1)) if L is not None and n is not None else None
            if last in ("enumerate", "rev", "cloned", "copied", "map", "inspect", "peekable"):
                return count(x[2][0], depth + 1)
            if last in ("iter", "iter_mut", "into_iter"):
                return count(x[2][0], depth + 1) or lzw.length(x[2][0])
        return lzw.length(x) if x[0] in ("field", "param", "local") else None
    H = gw.innermost_loop_containing(halving) if halving else None
    in_closure = [b_ for p_, b_ in prog.bodies.items() if p_.startswith(gw_entry.path + "::{closure") and not b_.is_promoted and _has_halving(b_)]
    if (not halving or H is None) and in_closure:
        res.instance(R4)
        res.not_decided.append("C08.halving: the halving happens in a closure handed to an iterator adaptor (fold / try_fold); the number of applications is not decided")
    elif not halving or H is None:
        res.add(Finding(R4, "C08.halving|anchors", "generate_total_work no longer halves the routing work in a loop over the routing path", gw.loc(0)))
    else:
        cnt = None
        for bb in sorted(gw.natural_loop(H)):
            t = gw.term(bb)
            if t["k"] == "call" and call_name(t) == "std::iter::Iterator::next" and t["args"]:
                cnt = count(chw.origin(t["args"][0]))
                break
        path_len = None
        for l in (lzw.length(("field", ("deref", ("param", 1, "self")), CORE + "consensus::transaction::Transaction", "path")),):
            path_len = l
        if cnt is None or path_len is None:
            res.not_decided.append("C08.halving: iteration count of the halving loop does not normalise")
        else:
            diff = cnt - (path_len - Lin(1))
            if diff.is_const() and diff.c == 0:
                res.sample({"rule": R4, "loop": gw.loc(H), "iterations": repr(cnt), "verdict": "one halving per hop after the first"})
            else:
                res.add(Finding(R4, "C08.halving|count", "generate_total_work halves the routing work %s times, not len(path) - 1 times: multi-hop transactions are credited "
                                "with the wrong amount of work" % repr(cnt), gw.loc(H)))

    # R5: the router lottery picks the *first* transaction whose cumulative fee total reaches the winning nolan. cumulative_fees is
    # not strictly increasing (a transaction without fee repeats its predecessor's total), so a binary search by that key lands on
    # an arbitrary one of the equal entries - possibly a transaction that paid nothing. Only first-match searches are admissible.
    fw = prog.body(CORE + "consensus::block::Block::find_winning_router")
    if fw is None:
        raise LookupError("Block::find_winning_router not found")
    chw5 = Chaser(fw)
    res.instance(R5)
    bins = []
    firsts = []
    for bb, t in fw.calls():
        last = (call_name(t) or "").rsplit("::", 1)[-1]
        args = [chw5.origin(a) for a in t["args"]]
        on_txs = any(has_field(a, "block::Block", "transactions") for a in args[:1])
        if last.startswith("binary_search") and on_txs:
            bins.append(bb)
        if last in ("find", "position", "partition_point", "next") and on_txs:
            firsts.append(bb)
    if bins:
        res.add(Finding(R5, "C08.winner-first-match|binary-search", "Block::find_winning_router looks the winning transaction up with a binary search over cumulative_fees, which repeats for "
                        "transactions without fee: the payout can go to the sender of a transaction that paid nothing", fw.loc(bins[0])))
    elif not firsts:
        res.not_decided.append("C08.winner-first-match: no first-match search over self.transactions recognised in find_winning_router")
    else:
        res.sample({"rule": R5, "search": [fw.loc(x) for x in firsts], "verdict": "first match in block order"})

    res.explanation = (
        "Decides that the work requirement and the golden-ticket check are gates on every accepting path of Block::validate for a block with a known parent "
        "(exempt: SPV mode, ghost blocks, no parent), that the requirement is computed from the parent's burn fee, both timestamps and the heartbeat, and that a "
        "failed routing-path check rejects a transaction. It does not decide monotonicity/bounds of the floating-point work function, nor payout eligibility and amounts.")
    res.assumptions = ["'previous block' is the value looked up in blockchain.blocks by self.previous_block_hash"]
    return res
