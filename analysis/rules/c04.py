"""C04 (clause) - insert/undo pairing in add_block.

From each of the two insertions of a candidate block (BlockRing::add_block, Blockchain.blocks.insert) every path to an exit
whose result is AddBlockResult::FailedNotValid passes the undo (today add_block_failure), and the undo removes the block from
Blockchain.blocks and from the block ring.  Termination of the wind/unwind loop is NOT decided (see DESIGN.md).
"""
from ..callgraph import CallGraph
from ..expr import call_name
from ..fields import FieldAnalysis
from ..paths import Explorer, describe_path
from ..report import Finding, Result

CORE = "saito_core::core::"
BC = CORE + "consensus::blockchain::Blockchain::"
RING_ADD = CORE + "consensus::blockring::BlockRing::add_block"
RING_DEL = CORE + "consensus::blockring::BlockRing::delete_block"


def run(prog, tier, extra=None):
    res = Result("C04", "other")
    R1 = res.rule("C04.undo", "every FailedNotValid exit after an insertion passes the undo", floor=2)
    R8 = res.rule("C04.insert-is-additive", "indexing the candidate before it is validated only adds its own entry: nothing reachable from BlockRing::add_block removes an entry or moves a longest-chain marker", floor=2)
    R3 = res.rule("C04.undo-touches-ledger", "the undo of a rejected block reaches no UtxoSet mutator", floor=2)
    R2 = res.rule("C04.undo-complete", "the undo removes the block from Blockchain.blocks and from the block ring", floor=2)
    R5 = res.rule("C04.index-delete-neutral", "deleting a block from the ring moves the longest-chain marker of its slot only relative to the old marker", floor=1)
    R6 = res.rule("C04.unwind-nonempty", "wind_chain hands the loop an Unwind continuation only when there is something to unwind", floor=1)
    R4 = res.rule("C04.recovery-rewinds-old-chain", "after a failed wind some wind step can apply the blocks of the old chain again", floor=2)
    ab = prog.body(BC + "add_block::{closure#0}")
    if ab is None:
        raise LookupError("add_block not found")
    fa = FieldAnalysis(prog)
    cg = CallGraph(prog, [u for u in prog.units if u.crate == "saito_core"])
    # bodies that undo an insertion: remove from Blockchain.blocks and delete from the ring (directly or via callees)
    removes = set()
    ringdel = set()
    for p, b in cg.bodies.items():
        if any(s[3] == "remove" for s in fa.sites(b, "blockchain::Blockchain", "blocks")):
            removes.add(p)
        if any(call_name(t) == RING_DEL for _, t in b.calls()):
            ringdel.add(p)

    def reaches(p, targets):
        return bool(cg.reachable_from([p], kinds=("call", "await")) & targets)
    # an undo body removes the block from Blockchain.blocks and from the ring itself (not through callees: the
    # reorganisation machinery also reaches the purge of old blocks, which is not an undo of this insertion)
    direct = removes & ringdel
    undo_bodies = set(direct) | {p[: -len("::{closure#0}")] for p in direct if p.endswith("::{closure#0}")}
    undo_blocks = set()
    for bb, t in ab.calls():
        tgt = t.get("res") or t.get("callee")
        if tgt in undo_bodies and tgt != ab.path:
            undo_blocks.add(bb)
    inserts = []
    for bb, t in ab.calls():
        if call_name(t) == RING_ADD:
            inserts.append((bb, "BlockRing::add_block"))
    for s in fa.sites(ab, "blockchain::Blockchain", "blocks"):
        if s[3] == "insert":
            inserts.append((s[1], "Blockchain.blocks.insert"))

    def failed(bb, env):
        t = ab.term(bb)
        if t["k"] == "return" and env.get(0) == "FailedNotValid":
            return "return-FailedNotValid"
        return None
    if not undo_blocks:
        res.add(Finding(R1, "C04.undo|no-undo", "add_block calls nothing that removes a rejected block from Blockchain.blocks and the block ring", ab.loc(0)))
    for bb, what in inserts:
        res.instance(R1)
        ex = Explorer(ab)
        start = ab.term(bb).get("t")
        found = ex.explore(start, blocked=undo_blocks, accept=failed) if start is not None else {}
        if found:
            kind, path = sorted(found.items())[0]
            res.add(Finding(R1, "C04.undo|%s" % what, "add_block returns FailedNotValid after %s without undoing the insertion: the rejected block stays stored"
                            % what, ab.loc(path[-1]), {"path": describe_path(ab, [bb] + path)}))
        else:
            res.sample({"rule": R1, "insertion": what, "site": ab.loc(bb), "undo_sites": [ab.loc(x) for x in sorted(undo_blocks)], "states": ex.states, "verdict": "every FailedNotValid exit passes the undo"})
    for bb in sorted(undo_blocks):
        t = ab.term(bb)
        tgt = t.get("res") or t.get("callee")
        res.instance(R2)
        res.sample({"rule": R2, "undo": tgt.replace(CORE, ""), "removes_from_blocks": reaches(tgt, removes), "deletes_from_ring": reaches(tgt, ringdel)})
    # R3: undoing a rejected block touches no ledger state: the block was never wound, so the undo path must not reach
    # anything that mutates a UtxoSet (Slip::on_chain_reorganization / Slip::delete)
    LEDGER = {CORE + "consensus::slip::Slip::on_chain_reorganization", CORE + "consensus::slip::Slip::delete"}
    for bb in sorted(undo_blocks):
        tgt = ab.term(bb).get("res") or ab.term(bb).get("callee")
        res.instance(R3)
        hit = cg.reachable_from([tgt], kinds=("call", "await", "creates")) & LEDGER
        if hit:
            path = cg.shortest_path(tgt, lambda q: q in LEDGER, kinds=("call", "await", "creates"))
            res.add(Finding(R3, "C04.undo-touches-ledger|%s" % tgt, "the undo of a rejected block (%s) reaches %s: it changes the spendable set although the block was never applied"
                            % (tgt.replace(CORE, ""), sorted(x.split("::")[-2] + "::" + x.split("::")[-1] for x in hit)), ab.loc(bb),
                            {"call_path": [e.dst.replace(CORE, "") for e in (path or [])]}))
        else:
            res.sample({"rule": R3, "undo": tgt.replace(CORE, ""), "verdict": "reaches no UtxoSet mutator"})
    # R4: a reorganisation first unwinds old_chain; when a block of new_chain then fails, "exactly as they were before the call"
    # needs old_chain's blocks applied again. The only body that applies a block is wind_chain (C03.ledger-owner), and it applies
    # chain[index] of the chain it is handed. So either some call of wind_chain is handed (something derived from) the old chain,
    # or wind_chain itself takes elements of its old_chain parameter. If neither, no execution can restore the old chain.
    from ..expr import Chaser, strip, walk
    WIND = BC + "wind_chain"
    wind_body = prog.body(WIND + "::{closure#0}")
    if wind_body is None:
        raise LookupError("wind_chain not found")

    def param_fields(body, e):
        """names of the parameters / coroutine-captured parameters an expression is read from"""
        out = set()
        for x in walk(e):
            if x[0] == "field" and strip(x[1])[0] == "param":
                out.add(x[3])
            elif x[0] == "param" and x[2]:
                out.add(x[2])
        return out
    sites = []
    for b in cg.bodies.values():
        if "::tests::" in b.path or "/test/" in b.file:
            continue
        chb = None
        for bb, t in b.calls():
            if (t.get("res") or t.get("callee")) != WIND or len(t["args"]) < 3:
                continue
            chb = chb or Chaser(b)
            sites.append((b, bb, param_fields(b, chb.origin(t["args"][1]))))
    res.instance(R4, len(sites))
    chw = Chaser(wind_body)
    takes_old = []
    for bb, t in wind_body.calls():
        n = (call_name(t) or "").rsplit("::", 1)[-1]
        if n in ("index", "get", "first", "last", "iter", "to_vec", "split_last", "split_first", "get_unchecked", "into_iter") and t["args"]:
            if "old_chain" in param_fields(wind_body, chw.origin(t["args"][0])):
                takes_old.append(bb)
    handed_old = [(b, bb) for b, bb, names in sites if "old_chain" in names]
    if not sites:
        res.add(Finding(R4, "C04.recovery-rewinds-old-chain|anchors", "no call of wind_chain found (anchor moved?)", wind_body.loc(0)))
    elif not handed_old and not takes_old:
        b0, bb0, _ = sites[0]
        res.add(Finding(R4, "C04.recovery-rewinds-old-chain|never",
                        "every call of wind_chain winds new_chain (%s) and wind_chain takes no block from old_chain: once old_chain has been unwound and a block of "
                        "new_chain fails to validate, nothing can apply old_chain's blocks again - the failed reorganisation is not rolled back (and the "
                        "Wind/Unwind loop re-tries the failing block)" % ", ".join(sorted({b.loc(bb) for b, bb, _ in sites})), b0.loc(bb0),
                        {"wind_chain_calls": [{"site": b.loc(bb), "chain_argument_from": sorted(n)} for b, bb, n in sites]}))
    else:
        res.sample({"rule": R4, "wind_chain_calls": [{"site": b.loc(bb), "chain_argument_from": sorted(n)} for b, bb, n in sites],
                    "wind_chain_reads_old_chain_at": [wind_body.loc(x) for x in takes_old], "verdict": "the old chain can be wound again"})
    # R6: when a block of the candidate chain fails, wind_chain answers Unwind(0, .., new_chain[index + 1..]) - the blocks wound so far.
    # unwind_chain indexes that vector at 0, so the continuation may only be built when index + 1 < len(new_chain), i.e. when the
    # failing block is not the first one wound (index == len - 1): the aggregate is reachable only over an edge that says so.
    wb = prog.body(BC + "wind_chain::{closure#0}")
    if wb is None:
        raise LookupError("wind_chain not found")
    from ..expr import Chaser as _Ch6, strip as _st6, walk as _wk6
    from .. import gate as _g6
    ch6 = _Ch6(wb)

    def is_idx(e):
        x = _st6(e)
        return x[0] == "field" and x[3] == "current_wind_index" and _st6(x[1])[0] == "param"

    def is_len_new(e):
        return any(y[0] == "len" and _st6(y[1])[0] == "field" and _st6(y[1])[3] == "new_chain" for y in _wk6(e))
    some_left = set()
    cmp6 = _g6.compare_edges(wb, ch6, lambda a, c: is_idx(a) and is_len_new(c))
    some_left |= cmp6["ne"]
    for c in _g6.order_edges(wb, ch6, lambda a, c: (is_idx(a) or any(is_idx(y) for y in _wk6(a))) and is_len_new(c)):
        if c["op"] in ("Lt",):
            some_left |= c["true_edges"]
        elif c["op"] in ("Ge",):
            some_left |= c["false_edges"]
    unwind_sites = [bb for bb, blk in enumerate(wb.blocks) for st in blk["s"]
                    if st[0] == "=" and st[2][0] == "agg" and st[2][1][0] == "adt" and st[2][1][1].endswith("WindingResult") and st[2][1][2] == "Unwind"]
    res.instance(R6, max(len(unwind_sites), 1))
    reach6 = wb.reachable(0, deleted_edges=some_left)
    bad6 = [bb for bb in unwind_sites if bb in reach6]
    if unwind_sites and bad6:
        res.add(Finding(R6, "C04.unwind-nonempty", "wind_chain can answer Unwind(0, .., new_chain[index + 1..]) on a path that never established index + 1 < len(new_chain): "
                        "when the first block wound fails the vector is empty and unwind_chain indexes it at 0 (add_block panics instead of refusing the block)", wb.loc(bad6[0])))
    elif unwind_sites:
        res.sample({"rule": R6, "sites": [wb.loc(x) for x in unwind_sites], "verdict": "only behind index != len(new_chain) - 1"})

    # R5: the undo deletes the rejected block from its ring slot. The slot's longest-chain marker (RingItem.lc_pos) must come out
    # of that as it went in (shifted if an earlier entry was removed, None only if the marked entry itself was removed): every value
    # that can be stored into lc_pos on the deletion path is either read from / decided by the old lc_pos, or the constant None
    # assigned outside any loop (the default). A constant Some(k), or a None decided by something other than the old marker, makes a
    # refused block change which block the index calls "on the longest chain".
    from ..expr import has_field as _has_field
    from ..fields import place_has_field
    del_reach = cg.reachable_from([RING_DEL], kinds=("call", "await"))
    n5 = 0
    for p in sorted(del_reach | {RING_DEL}):
        b = prog.body(p)
        if b is None or b.is_promoted:
            continue
        chb = Chaser(b)
        stores = []
        for bb, blk in enumerate(b.blocks):
            for st in blk["s"]:
                if st[0] == "=" and place_has_field(st[1], "ringitem::RingItem", "lc_pos") is not None:
                    stores.append((bb, st))
        for bb, st in stores:
            n5 += 1
            res.instance(R5)
            # the values that can flow into the store: the rvalue, or every definition of the local it copies
            vals = []

            def expand(block, e, seen):
                x = strip(e)
                if x[0] == "local" and x[1] not in seen and x[1] > b.argc and b.defs(x[1]):
                    seen.add(x[1])
                    for d in b.defs(x[1]):
                        if d[0] == "stmt":
                            expand(d[1], chb.rvalue(d[3], 0), seen)
                        else:
                            vals.append((d[1], ("call", "?", [], d[1])))
                else:
                    vals.append((block, e))
            expand(bb, chb.rvalue(st[2], 0), set())

            def decided_by_old_marker(vb):
                for sb, blk2 in enumerate(b.blocks):
                    t2 = blk2["t"]
                    if t2["k"] != "switch" or sb == vb or not b.dominates(sb, vb):
                        continue
                    if not _has_field(chb.origin(t2["discr"]), "ringitem::RingItem", "lc_pos"):
                        continue
                    # within one iteration: paths that go round the enclosing loop again do not count
                    h = b.innermost_loop_containing([sb, vb])
                    blocked = {h} if h is not None and h not in (vb, sb) else set()
                    if any(vb not in b.reachable(s2, blocked=blocked) for s2 in b.succ(sb)):
                        return True
                return False
            bad = None
            for vb, e in vals:
                x = strip(e)
                is_none = (x[0] == "agg" and x[1][0] == "adt" and x[1][2] == "None") or (x[0] == "const" and "None" in (x[2] or ""))
                in_loop = b.innermost_loop_containing([vb]) is not None
                if _has_field(e, "ringitem::RingItem", "lc_pos") or decided_by_old_marker(vb):
                    continue
                if is_none and not in_loop:
                    continue
                bad = (vb, e, is_none)
                break
            name = p.replace(CORE, "")
            if bad:
                vb, e, is_none = bad
                from ..expr import show as _show
                res.add(Finding(R5, "C04.index-delete-neutral|%s|%s" % (p, "none-in-loop" if is_none else "constant"),
                                "%s can leave the slot's longest-chain marker at %s, a value that does not depend on the old marker: deleting a (rejected) block "
                                "changes which block of that height the index reports as on the longest chain" % (name, _show(e)[:40]), b.loc(vb)))
            else:
                res.sample({"rule": R5, "body": name, "store": b.loc(bb), "values": len(vals), "verdict": "every stored value derives from the old marker (or is the None default)"})
    if n5 == 0:
        res.add(Finding(R5, "C04.index-delete-neutral|anchors", "no store to RingItem.lc_pos found on the deletion path (anchor moved?)", ab.loc(0)))
    if len(inserts) < 2:
        res.add(Finding(R1, "C04.undo|anchors", "expected both insertions (block ring and Blockchain.blocks) in add_block, found %d" % len(inserts), ab.loc(0)))
    # a candidate chain that fails the golden-ticket density rule has to be refused before anything is unwound: once winding has
    # started, a failure runs into the recovery path, which cannot restore the old chain (the known finding above)
    from ._include import include
    include(res, prog, tier, extra, "c05", ["C05.gate"],
            "a chain-level refusal (golden-ticket density) must come before the first unwind, in Blockchain::validate itself")
    # R8: add_block puts the (still unvalidated, possibly hostile) candidate into the ring before validate(); add_block_failure later
    # removes exactly that entry. "Exactly as before" therefore needs the insertion to be purely additive: no body reachable from
    # BlockRing::add_block may remove from RingItem.block_hashes / block_ids or write RingItem.lc_pos / BlockRing.lc_pos (an id chosen
    # by the sender must not be able to evict or re-mark entries of stored blocks).
    from ..fields import FieldAnalysis as _FA8
    fa8 = _FA8(prog)
    RADD = CORE + "consensus::blockring::BlockRing::add_block"
    if prog.body(RADD) is None:
        raise LookupError("BlockRing::add_block not found")
    add_reach = cg.reachable_from([RADD], kinds=("call", "await", "creates")) | {RADD}
    for p8 in sorted(add_reach):
        b8 = cg.bodies.get(p8)
        if b8 is None or b8.is_promoted or not p8.startswith("saito_"):
            continue
        res.instance(R8)
        bad8 = None
        for adt8, fld8, kinds8 in (("ringitem::RingItem", "block_hashes", ("remove", "replace", "unknown")), ("ringitem::RingItem", "block_ids", ("remove", "replace", "unknown")),
                                   ("ringitem::RingItem", "lc_pos", ("assign", "replace", "unknown")), ("blockring::BlockRing", "lc_pos", ("assign", "replace", "unknown"))):
            for s8 in fa8.sites(b8, adt8, fld8):
                if s8[3] in kinds8 or (s8[0] == "assign" and "assign" in kinds8):
                    bad8 = bad8 or (fld8, s8[1])
        if bad8:
            res.add(Finding(R8, "C04.insert-is-additive|%s|%s" % (p8.replace("::{closure#0}", ""), bad8[0]), "%s, reachable from BlockRing::add_block, changes %s of existing index entries: "
                            "a candidate that is later refused has already evicted or re-marked stored blocks, and add_block_failure only takes the candidate's own entry out"
                            % (p8.replace(CORE, ""), bad8[0]), b8.loc(bad8[1])))
        else:
            res.sample({"rule": R8, "body": p8.replace(CORE, ""), "verdict": "adds only"})
    # "every attempt to add a block terminates": a lock-order cycle or a re-entrant acquisition on the way through add_block never returns
    AB = CORE + "consensus::blockchain::Blockchain::add_block"
    ab_reach = {q.replace("::{closure#0}", "") for q in cg.reachable_from([AB, AB + "::{closure#0}"], kinds=("call", "await", "creates"))} | {AB}
    include(res, prog, tier, extra, "c20", ["C20.inversion", "C20.reacquire", "C20.read-reentry"],
            "block processing blocked on a lock it (or a peer task) already holds never returns",
            keep=lambda f: any(part.replace("::{closure#0}", "") in ab_reach for part in f.key.split("|")[1:2]))
    res.explanation = (
        "Decides the insert/undo pairing of add_block: after the candidate block was put into the block ring and into Blockchain.blocks, no exit with FailedNotValid is "
        "reachable without passing a call whose callee removes it from both again. Necessary for 'stored blocks ... exactly as they were'. It does NOT decide termination of "
        "the Wind/Unwind loop in Blockchain::validate (no syntactic variant; by reading, the recovery branches re-wind new_chain, which yields the livelock the property "
        "describes) nor restoration of UTXO set / index / wallet after a mid-reorganisation failure.")
    res.assumptions = ["an undo is any callee that (transitively) removes from Blockchain.blocks and calls BlockRing::delete_block"]
    return res
