"""C04 (clause) - insert/undo pairing in add_block.

From each of the two insertions of a candidate block (BlockRing::add_block, Blockchain.blocks.insert) every path to an exit
whose result is AddBlockResult::FailedNotValid passes the undo (today add_block_failure), and the undo removes the block from
Blockchain.blocks and from the block ring.  Termination of the wind/unwind loop is NOT decided (see DESIGN.md).
"""
from ..callgraph import CallGraph
from ..expr import call_name
from ..fields import FieldAnalysis
from ..paths import Explorer, describe_path
from ..report import Finding, Result

CORE = "saito_core::core::"
BC = CORE + "consensus::blockchain::Blockchain::"
RING_ADD = CORE + "consensus::blockring::BlockRing::add_block"
RING_DEL = CORE + "consensus::blockring::BlockRing::delete_block"


def run(prog, tier, extra=None):
    res = Result("C04", "other")
    R1 = res.rule("C04.undo", "every FailedNotValid exit after an insertion passes the undo", floor=2)
    R3 = res.rule("C04.undo-touches-ledger", "the undo of a rejected block reaches no UtxoSet mutator", floor=2)
    R2 = res.rule("C04.undo-complete", "the undo removes the block from Blockchain.blocks and from the block ring", floor=2)
    ab = prog.body(BC + "add_block::{closure#0}")
    if ab is None:
        raise LookupError("add_block not found")
    fa = FieldAnalysis(prog)
    cg = CallGraph(prog, [u for u in prog.units if u.crate == "saito_core"])
    # bodies that undo an insertion: remove from Blockchain.blocks and delete from the ring (directly or via callees)
    removes = set()
    ringdel = set()
    for p, b in cg.bodies.items():
        if any(s[3] == "remove" for s in fa.sites(b, "blockchain::Blockchain", "blocks")):
            removes.add(p)
        if any(call_name(t) == RING_DEL for _, t in b.calls()):
            ringdel.add(p)

    def reaches(p, targets):
        return bool(cg.reachable_from([p], kinds=("call", "await")) & targets)
    # an undo body removes the block from Blockchain.blocks and from the ring itself (not through callees: the
    # reorganisation machinery also reaches the purge of old blocks, which is not an undo of this insertion)
    direct = removes & ringdel
    undo_bodies = set(direct) | {p[: -len("::{closure#0}")] for p in direct if p.endswith("::{closure#0}")}
    undo_blocks = set()
    for bb, t in ab.calls():
        tgt = t.get("res") or t.get("callee")
        if tgt in undo_bodies and tgt != ab.path:
            undo_blocks.add(bb)
    inserts = []
    for bb, t in ab.calls():
        if call_name(t) == RING_ADD:
            inserts.append((bb, "BlockRing::add_block"))
    for s in fa.sites(ab, "blockchain::Blockchain", "blocks"):
        if s[3] == "insert":
            inserts.append((s[1], "Blockchain.blocks.insert"))

    def failed(bb, env):
        t = ab.term(bb)
        if t["k"] == "return" and env.get(0) == "FailedNotValid":
            return "return-FailedNotValid"
        return None
    if not undo_blocks:
        res.add(Finding(R1, "C04.undo|no-undo", "add_block calls nothing that removes a rejected block from Blockchain.blocks and the block ring", ab.loc(0)))
    for bb, what in inserts:
        res.instance(R1)
        ex = Explorer(ab)
        start = ab.term(bb).get("t")
        found = ex.explore(start, blocked=undo_blocks, accept=failed) if start is not None else {}
        if found:
            kind, path = sorted(found.items())[0]
            res.add(Finding(R1, "C04.undo|%s" % what, "add_block returns FailedNotValid after %s without undoing the insertion: the rejected block stays stored"
                            % what, ab.loc(path[-1]), {"path": describe_path(ab, [bb] + path)}))
        else:
            res.sample({"rule": R1, "insertion": what, "site": ab.loc(bb), "undo_sites": [ab.loc(x) for x in sorted(undo_blocks)], "states": ex.states, "verdict": "every FailedNotValid exit passes the undo"})
    for bb in sorted(undo_blocks):
        t = ab.term(bb)
        tgt = t.get("res") or t.get("callee")
        res.instance(R2)
        res.sample({"rule": R2, "undo": tgt.replace(CORE, ""), "removes_from_blocks": reaches(tgt, removes), "deletes_from_ring": reaches(tgt, ringdel)})
    # R3: undoing a rejected block touches no ledger state: the block was never wound, so the undo path must not reach
    # anything that mutates a UtxoSet (Slip::on_chain_reorganization / Slip::delete)
    LEDGER = {CORE + "consensus::slip::Slip::on_chain_reorganization", CORE + "consensus::slip::Slip::delete"}
    for bb in sorted(undo_blocks):
        tgt = ab.term(bb).get("res") or ab.term(bb).get("callee")
        res.instance(R3)
        hit = cg.reachable_from([tgt], kinds=("call", "await", "creates")) & LEDGER
        if hit:
            path = cg.shortest_path(tgt, lambda q: q in LEDGER, kinds=("call", "await", "creates"))
            res.add(Finding(R3, "C04.undo-touches-ledger|%s" % tgt, "the undo of a rejected block (%s) reaches %s: it changes the spendable set although the block was never applied"
                            % (tgt.replace(CORE, ""), sorted(x.split("::")[-2] + "::" + x.split("::")[-1] for x in hit)), ab.loc(bb),
                            {"call_path": [e.dst.replace(CORE, "") for e in (path or [])]}))
        else:
            res.sample({"rule": R3, "undo": tgt.replace(CORE, ""), "verdict": "reaches no UtxoSet mutator"})
    if len(inserts) < 2:
        res.add(Finding(R1, "C04.undo|anchors", "expected both insertions (block ring and Blockchain.blocks) in add_block, found %d" % len(inserts), ab.loc(0)))
    res.explanation = (
        "Decides the insert/undo pairing of add_block: after the candidate block was put into the block ring and into Blockchain.blocks, no exit with FailedNotValid is "
        "reachable without passing a call whose callee removes it from both again. Necessary for 'stored blocks ... exactly as they were'. It does NOT decide termination of "
        "the Wind/Unwind loop in Blockchain::validate (no syntactic variant; by reading, the recovery branches re-wind new_chain, which yields the livelock the property "
        "describes) nor restoration of UTXO set / index / wallet after a mid-reorganisation failure.")
    res.assumptions = ["an undo is any callee that (transitively) removes from Blockchain.blocks and calls BlockRing::delete_block"]
    return res
