"""C03 (clause) - the four views of the longest chain move in lockstep and nothing else touches the ledger.

R1 lockstep: wind_chain, on every path from the accepting edge of Block::validate to an exit, and unwind_chain, on
   every path to a Wind/Unwind continuation, call each of BlockRing::, Block::(UTXO), Wallet:: and
   Blockchain::on_chain_reorganization exactly once, all with the same constant direction (true / false)
R2 ledger ownership: a UtxoSet is mutated only by Slip::on_chain_reorganization, Slip::delete and the checkpoint branch
   of add_blocks_from_mempool; Slip::on_chain_reorganization is called only from Transaction::, that only from Block::,
   that only from wind_chain / unwind_chain
R4 full before apply: in wind_chain and unwind_chain the call that applies the block's transactions to the UTXO set is
   dominated, in the same body, by a call that reaches Block::upgrade_block_to_block_type
R3 index ownership: BlockRing::on_chain_reorganization is called and Block.in_longest_chain written only by the bodies
   of the frozen table
"""
from .. import gate
from ..callgraph import CallGraph
from ..expr import call_name
from ..expr import Chaser as _Chw
from ..fields import FieldAnalysis
from ..paths import Explorer, const_bool, describe_path
from ..report import Finding, Result

CORE = "saito_core::core::"
BC = CORE + "consensus::blockchain::Blockchain::"
REORG = {
    "blockring": CORE + "consensus::blockring::BlockRing::on_chain_reorganization",
    "utxo": CORE + "consensus::block::Block::on_chain_reorganization",
    "wallet": CORE + "consensus::wallet::Wallet::on_chain_reorganization",
    "blockchain": BC + "on_chain_reorganization",
}
UTXOSET_TY = "ahash::AHashMap<[u8; 59], bool>"
UTXO_MUTATORS = {
    CORE + "consensus::slip::Slip::on_chain_reorganization": "the wind/unwind primitive",
    CORE + "consensus::slip::Slip::delete": "pruning of blocks that left the retention window",
    BC + "add_blocks_from_mempool::{closure#0}": "checkpoint branch: removes the keys listed in a checkpoint file at start-up",
}
INDEX_WRITERS = {
    BC + "wind_chain::{closure#0}": "R1 applies",
    BC + "unwind_chain::{closure#0}": "R1 applies",
    CORE + "consensus::block::Block::on_chain_reorganization": "sets in_longest_chain while (un)winding the block's transactions",
    BC + "add_block::{closure#0}": "pre-sets the flag before validate() and resets it on failure",
    CORE + "routing_thread::RoutingThread::process_ghost_chain::{closure#0}": "SPV ghost blocks carry no transactions: there is no ledger state to (un)wind",
}


def show5(e):
    from ..expr import show
    return show(e)[:60]


def reorg_calls(body):
    """{view: [(bb, direction const or None)]}"""
    out = {k: [] for k in REORG}
    for bb, t in body.calls():
        n = call_name(t)
        for view, path in REORG.items():
            if n == path:
                flags = [const_bool(a) for a in t["args"] if const_bool(a) is not None and body.tyix(a[1]["t"])["s"] == "bool"]
                out[view].append((bb, flags[0] if len(flags) == 1 else None))
    return out


def flag_sites(prog, body):
    """[(bb, direction)] - places where the step writes Block.in_longest_chain: a direct assignment of a constant, or a call
    of a workspace function that assigns the flag from one of its bool parameters (direction = the constant passed there)"""
    from ..expr import Chaser
    from ..fields import place_has_field
    out = []
    ch = Chaser(body)
    for bb, blk in enumerate(body.blocks):
        for st in blk["s"]:
            if st[0] == "=" and place_has_field(st[1], "block::Block", "in_longest_chain") is not None:
                e = ch.rvalue(st[2], 0)
                out.append((bb, bool(e[1]) if e[0] == "const" and e[1] in (0, 1, True, False) else None))
    for bb, t in body.calls():
        callee = prog.bodies.get(t.get("res") or t.get("callee") or "")
        if callee is None or callee.is_promoted:
            continue
        k = _flag_param(callee)
        if k is not None and k - 1 < len(t["args"]):
            out.append((bb, const_bool(t["args"][k - 1])))
    return out


_FLAG_PARAM = {}


def _flag_param(callee):
    """index of the bool parameter that `callee` stores into Block.in_longest_chain (None if it does not)"""
    if callee.path in _FLAG_PARAM:
        return _FLAG_PARAM[callee.path]
    from ..expr import Chaser, strip
    from ..fields import place_has_field
    r = None
    ch = None
    for blk in callee.blocks:
        for st in blk["s"]:
            if st[0] == "=" and place_has_field(st[1], "block::Block", "in_longest_chain") is not None:
                ch = ch or Chaser(callee)
                e = strip(ch.rvalue(st[2], 0))
                if e[0] == "param" and callee.ty(e[1])["s"] == "bool":
                    r = e[1]
    _FLAG_PARAM[callee.path] = r
    return r


def lockstep(res, rule, body, start_blocks, direction, accept, what, fixed=None, prog=None):
    calls = reorg_calls(body)
    if prog is not None:
        calls["flag"] = flag_sites(prog, body)
    for view, sites in calls.items():
        res.instance(rule)
        key = "C03.lockstep|%s|%s" % (body.path, view)
        name = body.path.split("::")[-2]
        if not sites:
            if view == "flag":
                res.add(Finding(rule, key + "|missing", "%s never writes Block.in_longest_chain (directly or through Block::on_chain_reorganization): the block's "
                                "on-chain flag is not moved with the other views" % name, body.loc(0)))
            else:
                res.add(Finding(rule, key + "|missing", "%s never calls %s::on_chain_reorganization: the %s view is not moved with the others" % (name, view, view), body.loc(0)))
            continue
        bad_dir = [bb for bb, d in sites if d is not direction]
        if bad_dir:
            res.add(Finding(rule, key + "|direction", "%s calls the %s reorganisation with direction %s, expected the constant %s"
                            % (name, view, "non-constant/other", str(direction).lower()), body.loc(bad_dir[0])))
        blocks = {bb for bb, _ in sites}
        ex = Explorer(body, **(fixed or {}))
        found = {}
        for s in start_blocks:
            f = ex.explore(s, blocked=blocks, accept=accept)
            found.update(f)
        if found:
            kind, path = sorted(found.items())[0]
            res.add(Finding(rule, key + "|skipped", "%s reaches %s (%s) on a path that does not update the %s view" % (name, what, kind, view),
                            body.loc(path[-1]), {"path": describe_path(body, path)}))
            continue
        # at most once: no reorg call of this view reachable again from after one
        twice = False
        for bb in (blocks if view != "flag" else ()):     # writing the flag again with the same constant changes nothing
            nxt = body.term(bb).get("t")
            if nxt is not None and blocks & body.reachable(nxt):
                twice = True
                res.add(Finding(rule, key + "|twice", "%s can update the %s view twice for one block" % (name, view), body.loc(bb)))
                break
        if not bad_dir and not twice:
            res.sample({"rule": rule, "body": name, "view": view, "sites": [body.loc(b) for b in blocks], "direction": direction, "verdict": "exactly once on every continuing path"})


def _reaches_param(b, ch, op):
    """does this `&mut Block` point at a block that outlives the body (reached through a parameter / captured self)?"""
    from ..expr import walk
    for x in walk(ch.origin(op)):
        if x[0] == "param":
            return True
        if x[0] == "local":
            # async bodies start by moving their captured arguments into named locals: `_3 = move (_1.self)`
            for d in b.defs(x[1]):
                if d[0] == "stmt" and d[3][0] == "use" and d[3][1][0] in ("cp", "mv") and 1 <= d[3][1][1][0] <= b.argc:
                    return True
    return False


def run(prog, tier, extra=None):
    res = Result("C03", "other")
    R1 = res.rule("C03.lockstep", "wind/unwind update blockring, UTXO set, wallet and blockchain exactly once each, same direction", floor=9)
    R2 = res.rule("C03.ledger-owner", "only the wind/unwind primitives (and two named exceptions) mutate a UtxoSet", floor=6)
    R4 = res.rule("C03.full-before-apply", "wind/unwind upgrade the block to a full block in the same step before applying its transactions", floor=2)
    R5 = res.rule("C03.order", "wind proceeds oldest-first, unwind newest-first (index direction over the tip-first chain slices)", floor=2)
    R7 = res.rule("C03.tx-apply-total", "Transaction::on_chain_reorganization applies every input and every output, in both directions, for every transaction type", floor=2)
    R6 = res.rule("C03.marker-by-hash", "a ring slot's longest-chain marker is set to the position of the block's hash (or cleared); ring positions are not computed with wrapping arithmetic", floor=2)
    R8 = res.rule("C03.chain-segments", "the two chain segments handed to wind/unwind are collected by following parent links from a tip (or the longest-chain index), never a by-height lookup that ignores which block is on the chain", floor=2)
    R9 = res.rule("C03.ring-positions", "positions in the block ring are computed from the ring size (2 x genesis_period), never from genesis_period itself", floor=10)
    R10 = res.rule("C03.purge-on-chain-only", "the purge erases outputs (Block::delete, Wallet::delete_block) only for a block flagged in_longest_chain", floor=1)
    R3 = res.rule("C03.index-owner", "only the table's bodies write the longest-chain index / in_longest_chain", floor=8)

    wind = prog.body(BC + "wind_chain::{closure#0}")
    unwind = prog.body(BC + "unwind_chain::{closure#0}")
    if wind is None or unwind is None:
        raise LookupError("wind_chain / unwind_chain not found")
    # wind: from the accepting edge of Block::validate
    sites = list(gate.verdict_sites(wind, lambda n: n == CORE + "consensus::block::Block::validate"))
    if not sites:
        res.add(Finding(R1, "C03.lockstep|wind|no-validate", "wind_chain does not await Block::validate", wind.loc(0)))
    any_return = gate.make_accept(wind, return_tags={"Wind", "Unwind", "FinishWithSuccess", "FinishWithFailure"})

    def wind_accept(bb, env):
        t = wind.term(bb)
        return "return" if t["k"] == "return" else None
    for s in sites:
        lockstep(res, R1, wind, [s["start"]], True, wind_accept, "an exit after the block validated",
                 fixed={"fixed_locals": {s["local"]: True}}, prog=prog)
        # and on the rejecting edge none of them runs (shared with C01)
        found, ex = gate.check_gate(wind, s, gate.make_accept(wind, effects=tuple(p.split("::", 4)[-1] for p in REORG.values())), prog.units)
        res.instance(R1)
        if found:
            res.add(Finding(R1, "C03.lockstep|wind|rejected-block-applied", "wind_chain applies a block that failed validation", wind.loc(s["bb"])))

    def unwind_accept(bb, env):
        t = unwind.term(bb)
        if t["k"] == "return":
            v = env.get(0)
            if v in ("Wind", "Unwind") or v is None:
                return "return-" + str(v)
        return None
    lockstep(res, R1, unwind, [0], False, unwind_accept, "a Wind/Unwind continuation", prog=prog)

    # R4: the block whose transactions are (un)wound is a full block: within the same step, the call of
    # Block::on_chain_reorganization is dominated by a call that reaches upgrade_block_to_block_type
    # (each step also prunes old blocks, so an upgrade done earlier, outside the step, can be undone before the block's turn)
    cg0 = CallGraph(prog, [u for u in prog.units if u.crate == "saito_core"])
    UPG = CORE + "consensus::block::Block::upgrade_block_to_block_type"
    upgraders = {p for p in cg0.bodies if any(q.startswith(UPG) for q in cg0.reachable_from([p], kinds=("call", "await")))}
    for body in (wind, unwind):
        ups = [bb for bb, t in body.calls() if (t.get("res") or t.get("callee") or "") in upgraders]
        for bb, t in body.calls():
            if call_name(t) != REORG["utxo"]:
                continue
            res.instance(R4)
            if not any(body.dominates(u, bb) for u in ups):
                res.add(Finding(R4, "C03.full-before-apply|%s" % body.path,
                                "%s applies Block::on_chain_reorganization to a block that was not upgraded to a full block in the same step: "
                                "a pruned block has no transactions, so nothing is (un)wound while index and flags move" % body.path.split("::")[-2], body.loc(bb)))
            else:
                res.sample({"rule": R4, "body": body.path.split("::")[-2], "site": body.loc(bb), "verdict": "dominated by an upgrade to BlockType::Full in the same step"})

    # R5: blocks are wound oldest first and unwound newest first. Both chain slices are ordered tip first, so wind_chain indexes
    # new_chain[i] and continues with i - 1, unwind_chain indexes old_chain[i] and continues with i + 1 (an unwind in the other
    # order re-creates outputs that a later block of the abandoned fork had spent)
    from ..expr import Chaser as _Ch, strip as _strip, walk as _walk
    for body, chain_param, idx_param, cont, step in ((wind, "new_chain", "current_wind_index", "Wind", "Sub"), (unwind, "old_chain", "current_unwind_index", "Unwind", "Add")):
        ch5 = _Ch(body)
        res.instance(R5)
        name = body.path.split("::")[-2]

        def is_param(e, pname):
            x = _strip(e)
            return x[0] == "field" and x[3] == pname and _strip(x[1])[0] == "param"
        # (a) the block handled in this step is chain[index]
        indexed = False
        for bb, t in body.calls():
            n = call_name(t) or ""
            if n in ("std::ops::Index::index", "std::slice::get", "std::vec::Vec::get") and len(t["args"]) == 2:
                a0, a1 = ch5.origin(t["args"][0]), ch5.origin(t["args"][1])
                if is_param(a0, chain_param) and is_param(a1, idx_param):
                    indexed = True
        for blk in body.blocks:
            for st in blk["s"]:
                if st[0] == "=":
                    for pl in ([st[2][1][1]] if st[2][0] == "use" and st[2][1][0] in ("cp", "mv") else []) + ([st[2][2]] if st[2][0] == "ref" else []):
                        e = ch5.place(pl)
                        for x in _walk(e):
                            if x[0] == "index" and is_param(x[1], chain_param) and is_param(x[2], idx_param):
                                indexed = True
        # (b) the continuation of the same kind steps the index in the right direction (the continuation may be chosen in a
        # private helper that is handed the index: its parameters are replaced by the call's arguments)
        steps = []
        cont_sites = []
        for blk in body.blocks:
            for st in blk["s"]:
                if st[0] == "=" and st[2][0] == "agg" and st[2][1][0] == "adt" and st[2][1][1].endswith("WindingResult") and st[2][1][2] == cont:
                    cont_sites.append(ch5.origin(st[2][2][0]))
        for bb, t in body.calls():
            h = prog.bodies.get(t.get("res") or t.get("callee") or "")
            if h is None or h.is_promoted or h.is_coroutine or not h.ty(0)["s"].endswith("WindingResult"):
                continue
            chh = _Ch(h)
            outer = [ch5.origin(a) for a in t["args"]]
            for blk in h.blocks:
                for st in blk["s"]:
                    if st[0] == "=" and st[2][0] == "agg" and st[2][1][0] == "adt" and st[2][1][1].endswith("WindingResult") and st[2][1][2] == cont:
                        cont_sites.append(gate.subst_params(chh.origin(st[2][2][0]), outer))
        for e0 in cont_sites:
            if True:
                if True:
                    x = _strip(e0)
                    if x[0] == "field" and x[1][0] == "bin":
                        x = x[1]
                    if x[0] == "bin" and x[1].startswith(step) and is_param(x[2], idx_param) and x[3][0] == "const" and x[3][1] == 1:
                        steps.append("ok")
                    else:
                        steps.append(show5(e0))
        if not indexed:
            res.add(Finding(R5, "C03.order|%s|element" % name, "%s does not take the block of this step as %s[%s]: the order in which blocks are %s is no longer tied to the step index"
                            % (name, chain_param, idx_param, "wound" if cont == "Wind" else "unwound"), body.loc(0)))
        elif "ok" not in steps:
            res.add(Finding(R5, "C03.order|%s|step" % name, "%s does not continue with %s %s 1 (found %s)" % (name, idx_param, "-" if step == "Sub" else "+", steps[:3]), body.loc(0)))
        else:
            res.sample({"rule": R5, "body": name, "element": "%s[%s]" % (chain_param, idx_param), "continues_with": "%s %s 1" % (idx_param, "-" if step == "Sub" else "+")})

    # R2
    cg = CallGraph(prog, [u for u in prog.units if u.crate in ("saito_core", "saito_rust", "saito_spammer", "saito_wasm")])
    MUT = {"insert", "remove", "remove_entry", "clear", "retain", "drain", "extend", "entry", "get_mut", "iter_mut", "values_mut"}
    for p, b in cg.bodies.items():
        if "::tests::" in p or "/test/" in b.file:
            continue
        for bb, t in b.calls():
            n = call_name(t) or ""
            if not n.startswith("ahash::AHashMap::") or n.rsplit("::", 1)[-1] not in MUT:
                continue
            self_ty = " ".join(b.tyix(i)["s"] for i in t.get("cargs", [])[:2])
            a0 = b.ty(t["args"][0][1][0])["s"] if t["args"] and t["args"][0][0] in ("cp", "mv") else ""
            if UTXOSET_TY not in a0 and "[u8; 59] bool" not in self_ty:
                continue
            res.instance(R2)
            if p not in UTXO_MUTATORS:
                res.add(Finding(R2, "C03.ledger-owner|%s|%s" % (p, n.rsplit("::", 1)[-1]),
                                "%s mutates a UtxoSet (%s) outside the wind/unwind primitives" % (p.replace(CORE, ""), n.rsplit("::", 1)[-1]), b.loc(bb)))
    chain = [
        (CORE + "consensus::slip::Slip::on_chain_reorganization", [CORE + "consensus::transaction::Transaction::on_chain_reorganization"]),
        (CORE + "consensus::transaction::Transaction::on_chain_reorganization", [CORE + "consensus::block::Block::on_chain_reorganization"]),
        (CORE + "consensus::block::Block::on_chain_reorganization", [BC + "wind_chain", BC + "unwind_chain"]),
        # the pruning primitive: only the purge of blocks that left the retention window may erase outputs
        (CORE + "consensus::slip::Slip::delete", [CORE + "consensus::transaction::Transaction::delete"]),
        (CORE + "consensus::transaction::Transaction::delete", [CORE + "consensus::block::Block::delete"]),
        (CORE + "consensus::block::Block::delete", [BC + "delete_block"]),
    ]
    for callee, allowed in chain:
        if callee not in cg.bodies:
            raise LookupError(callee + " not found")
        edges = list(cg.inn[callee]) + list(cg.inn.get(callee + "::{closure#0}", []))
        seen_src = set()
        for e in edges:
            if e.kind == "creates" or e.src == callee or e.src in seen_src:
                continue
            seen_src.add(e.src)
            src = cg.bodies[e.src]
            if "::tests::" in e.src or "/test/" in src.file:
                continue
            res.instance(R2)
            if not any(e.src == a or e.src.startswith(a + "::{closure") for a in allowed):
                res.add(Finding(R2, "C03.ledger-owner|caller|%s|%s" % (callee.split("::")[-2], e.src),
                                "%s calls %s outside the wind/unwind path" % (e.src.replace(CORE, ""), "::".join(callee.split("::")[-2:])), src.loc(e.bb)))

    # R3
    fa = FieldAnalysis(prog)
    from ._helpers import helper_closure, root as _root
    index_cov = helper_closure(prog, INDEX_WRITERS)        # table entries and private helpers that only run as part of one
    for p, b in cg.bodies.items():
        if "::tests::" in p or "/test/" in b.file:
            continue
        hits = []
        for bb, t in b.calls():
            if call_name(t) == REORG["blockring"]:
                hits.append((bb, "BlockRing::on_chain_reorganization"))
        for s in fa.sites(b, "block::Block", "in_longest_chain"):
            if s[0] == "assign":
                hits.append((s[1], "in_longest_chain ="))
        # replacing a stored block wholesale (`mem::swap(&mut loaded, self)`, `*self = loaded`) replaces its flag too
        BLKREF = "&mutsaito_core::core::consensus::block::Block"
        chw = None
        for bb, t in b.calls():
            n = call_name(t) or ""
            if n.rsplit("::", 1)[-1] in ("swap", "replace", "take") and "mem::" in n:
                for a in t["args"]:
                    if a[0] in ("cp", "mv") and not a[1][1] and b.ty_str(a[1][0]).replace(" ", "") == BLKREF:
                        chw = chw or _Chw(b)
                        if _reaches_param(b, chw, a):
                            hits.append((bb, "whole Block (in_longest_chain included)"))
        for bb, blk in enumerate(b.blocks):
            for st in blk["s"]:
                if st[0] == "=" and st[1][1] == ["deref"] and b.ty_str(st[1][0]).replace(" ", "") == BLKREF:
                    chw = chw or _Chw(b)
                    if _reaches_param(b, chw, ("cp", [st[1][0], []])):
                        hits.append((bb, "whole Block (in_longest_chain included)"))
        for bb, what in hits:
            res.instance(R3)
            if _root(p) not in index_cov:
                res.add(Finding(R3, "C03.index-owner|%s|%s" % (p, what), "%s writes the longest-chain index (%s) outside the wind/unwind machinery" % (p.replace(CORE, ""), what), b.loc(bb)))
    # add_block may only pre-set / reset the flag around validate(); any BlockRing reorganisation there bypasses the ledger
    ab = prog.body(BC + "add_block::{closure#0}")
    ab_helpers = {h for h, c in index_cov.items() if c == _root(ab.path) and h != c}
    for bb, t in ab.calls():
        tgt = _root(t.get("res") or t.get("callee") or "")
        via_helper = tgt in ab_helpers and any(call_name(t2) == REORG["blockring"] for hb in [prog.bodies.get(tgt)] if hb is not None for _, t2 in hb.calls())
        if call_name(t) == REORG["blockring"] or via_helper:
            res.instance(R3)
            res.add(Finding(R3, "C03.index-owner|%sadd_block::{closure#0}|BlockRing::on_chain_reorganization|unpaired" % BC,
                            "add_block rewrites the longest-chain index (BlockRing::on_chain_reorganization) without unwinding the UTXO set and the wallet: "
                            "the index stops describing the chain the ledger was built from", ab.loc(bb)))
    # R7: wind and unwind are inverse to each other only if the per-transaction step touches all inputs and all outputs whatever the
    # direction and the transaction type (amount == 0 is handled inside Slip): no exit of Transaction::on_chain_reorganization is
    # reachable without passing the loop over `from` and the loop over `to` that call Slip::on_chain_reorganization
    TOCR = CORE + "consensus::transaction::Transaction::on_chain_reorganization"
    tb = prog.body(TOCR)
    if tb is None:
        raise LookupError("Transaction::on_chain_reorganization not found")
    from ..expr import Chaser as _Ch7, has_field as _hf7, walk as _wk7
    ch7 = _Ch7(tb)
    SLIP_OCR = CORE + "consensus::slip::Slip::on_chain_reorganization"

    def closure_calls_slip(e):
        for y in _wk7(e):
            if y[0] == "agg" and y[1][0] == "closure":
                cb = prog.bodies.get(y[1][1])
                if cb is not None and any((t2.get("res") or t2.get("callee")) == SLIP_OCR for _, t2 in cb.calls()):
                    return True
        return False
    for side in ("from", "to"):
        res.instance(R7)
        sites = set()
        for bb, t in tb.calls():
            n = call_name(t) or ""
            args = [ch7.origin(a) for a in t["args"]]
            if n.rsplit("::", 1)[-1] in ("for_each", "try_for_each", "all", "fold") and args and _hf7(args[0], "transaction::Transaction", side) and any(closure_calls_slip(a) for a in args[1:]):
                thinned = [y[1].rsplit("::", 1)[-1] for y in _wk7(args[0]) if y[0] in ("call", "via") and y[1].rsplit("::", 1)[-1] in
                           ("filter", "filter_map", "skip", "skip_while", "take", "take_while", "step_by", "find", "nth")]
                if thinned:
                    res.add(Finding(R7, "C03.tx-apply-total|%s|thinned" % side, "Transaction::on_chain_reorganization applies Slip::on_chain_reorganization only to the %s that pass `%s`: "
                                    "some slips of a transaction are not (un)wound" % ("inputs" if side == "from" else "outputs", thinned[0]), tb.loc(bb)))
                sites.add(bb)
            if n == "std::iter::Iterator::next" and args and _hf7(args[0], "transaction::Transaction", side):
                lp = tb.innermost_loop_containing([bb])
                if lp is not None and any((tb.term(x).get("res") or tb.term(x).get("callee")) == SLIP_OCR for x in tb.natural_loop(lp) if tb.term(x)["k"] == "call"):
                    sites.add(bb)
        if not sites:
            res.add(Finding(R7, "C03.tx-apply-total|%s|missing" % side, "Transaction::on_chain_reorganization no longer applies Slip::on_chain_reorganization to every slip of `%s`" % side, tb.loc(0)))
            continue
        pth = tb.find_path(0, tb.return_blocks(), blocked=sites)
        if pth:
            res.add(Finding(R7, "C03.tx-apply-total|%s|skipped" % side, "Transaction::on_chain_reorganization can return without applying the %s of the transaction (%s): winding and "
                            "unwinding such a transaction are no longer inverse to each other, or a spent output stays spendable"
                            % ("inputs" if side == "from" else "outputs", "a transaction type or a direction is exempted"), tb.loc(pth[-1])))
        else:
            res.sample({"rule": R7, "side": side, "sites": [tb.loc(x) for x in sorted(sites)], "verdict": "applied on every path"})
    # R6: the by-height index answers "which block of this height is on the longest chain" through RingItem.lc_pos. Outside the
    # deletion path (C04.index-delete-neutral) a store of Some(..) into it must be the position at which the block's *hash* was found
    # in the slot (a search of block_hashes), never a position guessed from the order of arrival; None clears it. And positions in the
    # ring are computed with checked/branching arithmetic: `x.wrapping_sub(1) % n` is only right when n divides 2^64.
    from ..expr import Chaser as _Ch6, has_field as _hf6, strip as _st6, walk as _wk6, show as _sh6
    from ..fields import place_has_field as _phf6
    DELETE_PATH = {CORE + "consensus::ringitem::RingItem::delete_block"}
    # SPV bootstrap: ghost blocks are indexed without transactions or a ledger (see INDEX_WRITERS); add_ghost_block marks slot position 0
    # right after pushing the block, which names that block only while the slot holds nothing else - outside what this rule decides
    SPV_PATH = {BC + "add_ghost_block"}
    for p, b in cg.bodies.items():
        if "::tests::" in p or "/test/" in b.file or b.is_promoted or p in DELETE_PATH:
            continue
        if p in SPV_PATH:
            res.not_decided.append("C03.marker-by-hash: %s (SPV ghost-chain bootstrap) sets the slot marker positionally; not decided" % p.replace(CORE, ""))
            continue
        ch6 = None
        for bb, blk in enumerate(b.blocks):
            for st in blk["s"]:
                if st[0] != "=" or _phf6(st[1], "ringitem::RingItem", "lc_pos") is None:
                    continue
                ch6 = ch6 or _Ch6(b)
                vals = []

                def expand(block, e, seen):
                    x = _st6(e)
                    if x[0] == "local" and x[1] not in seen and x[1] > b.argc and b.defs(x[1]):
                        seen.add(x[1])
                        for d in b.defs(x[1]):
                            if d[0] == "stmt":
                                expand(d[1], ch6.rvalue(d[3], 0), seen)
                            else:
                                vals.append((d[1], ch6.call(d[2], d[1], 0)))
                    else:
                        vals.append((block, e))
                expand(bb, ch6.rvalue(st[2], 0), set())
                for vb, e in vals:
                    res.instance(R6)
                    x = _st6(e)
                    is_none = (x[0] == "agg" and x[1][0] == "adt" and x[1][2] == "None") or (x[0] == "const" and "None" in (x[2] or ""))
                    by_hash = _hf6(e, "ringitem::RingItem", "block_hashes") and any(
                        y[0] in ("call", "via") and y[1].rsplit("::", 1)[-1] in ("position", "rposition", "find", "find_map", "binary_search") for y in _wk6(e))
                    if is_none or by_hash:
                        res.sample({"rule": R6, "site": b.loc(vb), "value": "None" if is_none else "position of the hash in block_hashes"})
                    else:
                        res.add(Finding(R6, "C03.marker-by-hash|%s" % p, "%s sets a ring slot's longest-chain marker to `%s`, which is not the position at which the block's hash "
                                        "was found: with several blocks at one height the index can name a block that is not on the chain of the tip"
                                        % (p.replace(CORE, ""), _sh6(e)[:60]), b.loc(vb)))
        if p.startswith(CORE + "consensus::blockring::") or p.startswith(CORE + "consensus::ringitem::"):
            ch6 = ch6 or _Ch6(b)
            for bb, blk in enumerate(b.blocks):
                for st in blk["s"]:
                    if st[0] == "=" and st[2][0] == "bin" and st[2][1].startswith(("Rem", "Div")):
                        lhs = ch6.origin(st[2][2])
                        if any(y[0] in ("call", "via") and y[1].rsplit("::", 1)[-1] in ("wrapping_sub", "wrapping_add", "wrapping_mul", "wrapping_neg") for y in _wk6(lhs)):
                            res.instance(R6)
                            res.add(Finding(R6, "C03.marker-by-hash|%s|wrapping" % p, "%s reduces a wrapping_* result modulo the ring size (`%s`): at position 0 this is "
                                            "not the last slot unless the ring size is a power of two" % (p.replace(CORE, ""), _sh6(lhs)[:60]), b.loc(bb)))
    # R8: validate() unwinds `old_chain` and winds `new_chain`; the ledger stays the image of the tip's ancestry only if the
    # segments are exactly those ancestries. Each hash pushed onto a segment must come from the tip argument, from a stored block's
    # previous_block_hash, or from the longest-chain index; BlockRing::get_block_hash_by_block_id and RingItem.block_hashes answer
    # "some block at this height" (the first one stored), which is a different block after a reorganisation.
    from ..expr import Chaser as _Ch8, walk as _wk8
    for seg in ("calculate_old_chain_for_add_block", "calculate_new_chain_for_add_block"):
        sb = prog.body(BC + seg)
        if sb is None:
            raise LookupError("Blockchain::%s not found" % seg)
        # the builder and its closures (`successors(.., |hash| ..)`, `take_while`, ...): every hash they can yield is read here
        bodies8 = [sb] + [b for p, b in prog.bodies.items() if p.startswith(BC + seg + "::{closure") and not b.is_promoted]
        res.instance(R8)
        bad, follows_links = None, False
        for b8 in bodies8:
            ch8 = _Ch8(b8)
            for bb, t in b8.calls():
                n = call_name(t) or ""
                if "blockring::BlockRing::" in n and not n.endswith("get_longest_chain_block_hash_at_block_id"):
                    bad = bad or (n.rsplit("::", 1)[-1], b8, bb)
            for bb, blk in enumerate(b8.blocks):
                for st in blk["s"]:
                    if st[0] != "=":
                        continue
                    for y in _wk8(ch8.rvalue(st[2], 0)):
                        if y[0] == "field" and y[2].endswith("ringitem::RingItem") and y[3] == "block_hashes":
                            bad = bad or ("RingItem.block_hashes", b8, bb)
                        if y[0] == "field" and y[2].endswith("block::Block") and y[3] == "previous_block_hash":
                            follows_links = True
        if bad:
            res.add(Finding(R8, "C03.chain-segments|%s|%s" % (seg, bad[0]), "Blockchain::%s collects a hash obtained from %s: that is the first block stored at a height, not the one on "
                            "the chain being walked; after a reorganisation the wrong blocks are unwound/wound and the ledger no longer matches the tip's ancestry" % (seg, bad[0]), bad[1].loc(bad[2])))
        elif not follows_links:
            res.add(Finding(R8, "C03.chain-segments|%s|anchors" % seg, "Blockchain::%s no longer follows previous_block_hash (anchor moved?)" % seg, sb.loc(0)))
        else:
            res.sample({"rule": R8, "segment": seg, "bodies": len(bodies8), "sources": "tip argument / previous_block_hash / longest-chain index only"})
    # R9: the ring has get_ring_buffer_size() = 2 * genesis_period slots. A slot index computed from genesis_period directly (e.g. "the
    # slot before slot 0 is genesis_period - 1") points into the middle of the ring: after unwinding the block at the wrap-around id
    # the index loses its tip (latest block id 0) and whatever is decided from it - ledger checks, rebroadcasts - is switched off.
    from ..expr import Chaser as _Ch9, has_field as _hf9, walk as _wk9, show as _sh9
    for p9, b9 in sorted(prog.bodies.items()):
        if not p9.startswith(CORE + "consensus::blockring::BlockRing::") or b9.is_promoted or "::tests::" in p9 or p9.endswith("::get_ring_buffer_size") or p9.endswith("::new"):
            continue
        if p9.endswith("BlockRing::print_lc"):
            # one named exception: a trace!-only dump that walks slots 0..genesis_period (the first half of the ring); it writes nothing
            # and returns nothing, so no decision depends on the positions it visits
            continue
        ch9 = _Ch9(b9)
        idx_exprs = []
        def _collect(e, bb):
            for y in _wk9(e):
                if y[0] == "index" and _hf9(y[1], "blockring::BlockRing", "ring"):
                    idx_exprs.append((bb, y[2]))
        for bb, blk in enumerate(b9.blocks):
            for st in blk["s"]:
                if st[0] == "=":
                    _collect(ch9.rvalue(st[2], 0), bb)
                    # stores through ring[idx]
                    for pr in st[1][1]:
                        if isinstance(pr, list) and pr[0] == "i":
                            _collect(("index", ("field", ("local", st[1][0], None), "saito_core::core::consensus::blockring::BlockRing", "ring"), ch9.origin(["cp", [pr[1], []]])), bb)
            t9 = blk["t"]
            for a in t9.get("args", []):
                _collect(ch9.origin(a), bb)
            # `self.ring[i]` on a Vec is a call of Index::index / IndexMut::index_mut
            if t9["k"] == "call" and (call_name(t9) or "").rsplit("::", 1)[-1] in ("index", "index_mut") and len(t9["args"]) == 2 \
                    and _hf9(ch9.origin(t9["args"][0]), "blockring::BlockRing", "ring"):
                idx_exprs.append((bb, ch9.origin(t9["args"][1])))
        for bb, ie in idx_exprs:
            res.instance(R9)
            seen9, work9, bad9 = set(), [ie], None
            while work9:
                e = work9.pop()
                for y in _wk9(e):
                    if y[0] == "field" and y[2].endswith("blockring::BlockRing") and y[3] == "genesis_period":
                        bad9 = e
                    if y[0] == "local" and y[1] not in seen9:
                        seen9.add(y[1])
                        for d in b9.defs(y[1]):
                            work9.append(ch9.rvalue(d[3], 0) if d[0] == "stmt" else ch9.call(d[2], d[1], 0) if d[0] == "call" else ("unknown",))
            if bad9 is not None:
                # `2 * genesis_period - 1` written out is the ring size minus one: the same slot
                from ..linear import Linearizer as _Lz9
                try:
                    v9 = _Lz9(b9, ch9, prog).lin(bad9)
                except Exception:
                    v9 = None
                if v9 is not None and len(v9.t) == 1 and list(v9.t.values())[0] == 2 and "genesis_period" in str(list(v9.t.keys())[0]) and v9.c == -1:
                    bad9 = None
            if bad9 is not None:
                res.add(Finding(R9, "C03.ring-positions|%s" % p9.replace("::{closure#0}", ""), "%s indexes the ring with a position computed from genesis_period (`%s`), but the ring has "
                                "2 * genesis_period slots: the slot before slot 0 is ring size - 1" % (p9.replace(CORE, ""), _sh9(bad9)[:60]), b9.loc(bb)))
    # R10: side blocks are stored without validation and were never wound: the slips they name are not theirs. When the purge reaches
    # their height, erasing "their" inputs and outputs deletes live entries of the ledger (any peer can store such a block as a
    # sibling of an old block and name a victim's output as input). The erasing calls of Blockchain::delete_block must sit behind the
    # true edge of a test of block.in_longest_chain.
    from ..expr import Chaser as _Ch10, has_field as _hf10
    from .. import gate as _g10
    from ..paths import Explorer as _Ex10
    db = prog.body(BC + "delete_block::{closure#0}")
    if db is None:
        raise LookupError("Blockchain::delete_block not found")
    ch10 = _Ch10(db)
    erase = {bb for bb, t in db.calls() if ((t.get("res") or t.get("callee") or "").replace("::{closure#0}", "")).endswith(("consensus::block::Block::delete", "consensus::wallet::Wallet::delete_block"))}
    res.instance(R10)
    flag10 = _g10.bool_switch_edges(db, ch10, lambda e: _hf10(e, "block::Block", "in_longest_chain"))
    if not erase:
        res.add(Finding(R10, "C03.purge-on-chain-only|anchors", "Blockchain::delete_block no longer calls Block::delete / Wallet::delete_block (anchor moved?)", db.loc(0)))
    else:
        f10 = _Ex10(db).explore(0, deleted_edges=set(flag10["true"]), accept=lambda bb, env: "erase" if bb in erase else None)
        if f10:
            res.add(Finding(R10, "C03.purge-on-chain-only|unconditional", "Blockchain::delete_block erases the slips of every block stored at the purged height, on the longest chain or not: a side "
                            "block (stored without validation, never wound) takes the live outputs it names as inputs out of the UTXO set and the wallet when its height is purged",
                            db.loc(sorted(f10.values())[0][-1])))
        else:
            res.sample({"rule": R10, "erasing_calls": [db.loc(x) for x in sorted(erase)], "verdict": "only behind in_longest_chain == true"})
    res.explanation = (
        "Decides the lockstep and ownership structure without which the four views (UTXO set, by-height index, per-block flag, wallet) cannot describe the same chain: "
        "exactly-once, same-direction updates of all four in wind_chain (after an accepting validate) and unwind_chain, who may mutate a UtxoSet, who may call the "
        "wind/unwind primitives, who may write the index. It does not decide exactness of wind/unwind for every fork shape and delivery order (value and history level).")
    res.assumptions = ["UTXO_MUTATORS and INDEX_WRITERS tables in analysis/rules/c03.py, one reason each", "a UtxoSet is the type " + UTXOSET_TY]
    return res
