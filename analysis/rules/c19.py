"""C19 (clause) - wallet balance and unspent list are co-mutated.

Per body: inserts into Wallet.unspent_slips <-> additions to available_balance, removals <-> subtractions,
clear() <-> assignment of the constant 0.  The pairing is per body, not per path (delete_slip subtracts only when the
removal succeeded; generate_slips subtracts in one loop and removes in the next).  available_balance stays private.
"""
from ..expr import Chaser, has_field, walk
from ..fields import FieldAnalysis, place_has_field
from ..report import Finding, Result

WALLET = "wallet::Wallet"


def balance_writes(body, fa):
    """[(bb, direction)] with direction add / sub / zero / other"""
    out = []
    ch = None
    for bb, blk in enumerate(body.blocks):
        for st in blk["s"]:
            if st[0] != "=" or fa.has_field(body, st[1], WALLET, "available_balance") is None:
                continue
            ch = ch or Chaser(body)
            e = ch.rvalue(st[2], 0)
            d = "other"

            def is_balance(y):
                return has_field(y, WALLET, "available_balance") or has_field(y, None, "_ref__self__available_balance")
            if e[0] == "const" and e[1] == 0:
                d = "zero"
            for x in walk(e):
                if x[0] == "bin" and (is_balance(x[2]) or is_balance(x[3])):
                    if x[1].startswith("Add"):
                        d = "add"
                    elif x[1].startswith("Sub"):
                        d = "sub"
            out.append((bb, d))
        t = blk["t"]
        if t["k"] == "call" and fa.has_field(body, t["dest"], WALLET, "available_balance") is not None:
            out.append((bb, "other"))
    return out


def run(prog, tier, extra=None):
    res = Result("C19", "other")
    R1 = res.rule("C19.co-mutation", "a body that changes Wallet.unspent_slips changes available_balance in the matching direction and vice versa", floor=4)
    R3 = res.rule("C19.per-iteration", "loops that spend slips subtract the amount and queue the removal together in each iteration", floor=1)
    R4 = res.rule("C19.sub-without-removal", "every path that subtracts from the balance removes a slip from the unspent list", floor=2)
    R6 = res.rule("C19.ordinal", "the transaction ordinal the wallet records for a slip is a counter that a placeholder advances by txs_replacements", floor=1)
    R5 = res.rule("C19.reserve-then-fail", "after Wallet::generate_slips reserved slips no caller returns an error (nothing would be pending for them)", floor=2)
    R7 = res.rule("C19.slip-cap", "the transaction builders stop adding inputs/outputs at the count Transaction::validate still accepts", floor=2)
    R2 = res.rule("C19.private", "available_balance is written only inside impl Wallet (the field is private)", floor=1)
    fa = FieldAnalysis(prog)

    def owner_of(b):
        """plain closures act on behalf of the body that defines them (`keys.iter().for_each(|k| { self.unspent_slips.remove(k); })`)"""
        p = b.path
        while True:
            cur = prog.bodies.get(p)
            if cur is not None and cur.kind == "Closure" and not cur.is_coroutine and "::{closure#" in p:
                p = p.rsplit("::{closure#", 1)[0]
                continue
            return p
    own_closures = {}
    for b in prog.all_bodies():
        o = owner_of(b)
        if o != b.path:
            own_closures.setdefault(o, []).append(b)
    for b in prog.all_bodies():
        if "::tests::" in b.path or "/test/" in b.file or owner_of(b) != b.path:
            continue
        sites = [s for s in fa.sites(b, WALLET, "unspent_slips") if s[3] in ("insert", "remove", "replace", "unknown")]
        bw = balance_writes(b, fa)
        own_first = (sites[0][1] if sites else bw[0][0]) if (sites or bw) else None
        for cb in own_closures.get(b.path, []):
            sites = sites + [s for s in fa.sites(cb, WALLET, "unspent_slips") if s[3] in ("insert", "remove", "replace", "unknown")]
            bw = bw + balance_writes(cb, fa)
        if not sites and not bw:
            continue
        res.instance(R1)
        muts = set()
        for s in sites:
            if s[0] == "call" and s[2].rsplit("::", 1)[-1] == "clear":
                muts.add("clear")
            elif s[3] == "insert":
                muts.add("insert")
            elif s[3] == "remove":
                muts.add("remove")
            else:
                muts.add("other")
        dirs = {d for _, d in bw}
        want = {"insert": "add", "remove": "sub", "clear": "zero"}
        problems = []
        for m, d in want.items():
            if m in muts and d not in dirs:
                problems.append("%s of unspent_slips without %s of available_balance" % (m, {"add": "an addition", "sub": "a subtraction", "zero": "a reset to 0"}[d]))
            if d in dirs and m not in muts:
                problems.append("%s of available_balance without %s of unspent_slips" % ({"add": "addition", "sub": "subtraction", "zero": "reset to 0"}[d], m))
        if "other" in muts:
            problems.append("unclassified mutation of unspent_slips: %s" % [s[2] for s in sites if s[3] in ("replace", "unknown")])
        if "other" in dirs:
            problems.append("available_balance is assigned a value that is neither +=, -= nor 0")
        name = b.path.split("::", 4)[-1]
        if problems:
            loc = b.loc(own_first if own_first is not None else 0)
            res.add(Finding(R1, "C19.co-mutation|%s" % b.path, "%s: %s" % (name, "; ".join(problems)), loc,
                            {"unspent_mutations": sorted(muts), "balance_writes": sorted(dirs)}))
        else:
            res.sample({"body": name, "unspent_slips": sorted(muts), "available_balance": sorted(dirs), "verdict": "paired"})
        if bw:
            res.instance(R2)
            if "consensus::wallet::Wallet::" not in b.path and "wallet::{impl" not in b.path:
                res.add(Finding(R2, "C19.private|%s" % b.path, "%s writes Wallet.available_balance from outside impl Wallet" % name, b.loc(own_first if own_first is not None else 0)))
    # R3: deferred removals: a loop that subtracts a slip's amount and queues its key for removal from unspent_slips
    # does both or neither in every iteration
    from ..expr import call_name
    from .c09 import recv_local
    for b in prog.all_bodies():
        if "::tests::" in b.path or "/test/" in b.file or "consensus::wallet::Wallet::" not in b.path:
            continue
        subs = {bb for bb, d in balance_writes(b, fa) if d == "sub"}
        if not subs:
            continue
        has_remove = any(s[3] == "remove" for x in [b] + own_closures.get(b.path, []) for s in fa.sites(x, WALLET, "unspent_slips"))
        if not has_remove:
            continue
        pushes = {}
        for bb, t in b.calls():
            if (call_name(t) or "") == "std::vec::Vec::push" and len(t["args"]) == 2:
                k = recv_local(b, t["args"][0])
                if k is not None and "[u8; 59]" in b.ty(k)["s"]:
                    pushes.setdefault(k, set()).add(bb)
        for k, P in pushes.items():
            both = P | subs
            # innermost loop header containing all of them
            H = b.innermost_loop_containing(both)
            if H is None:
                continue
            exits = set(b.return_blocks()) | {H}
            res.instance(R3)
            name = b.path.split("::", 4)[-1]
            bad = None
            for p in P:
                if any(b.dominates(s, p) and b.dominates(H, s) for s in subs):
                    continue
                nxt = b.term(p).get("t")
                if nxt is not None and b.find_path(nxt, exits, blocked=subs):
                    bad = (p, "queues a slip for removal from unspent_slips without subtracting its amount from available_balance in the same iteration")
            for s_ in subs:
                if any(b.dominates(p, s_) and b.dominates(H, p) for p in P):
                    continue
                succs = b.succ(s_)
                if any(b.find_path(n, exits, blocked=P) for n in succs):
                    bad = bad or (s_, "subtracts a slip's amount from available_balance without queueing the slip for removal from unspent_slips in the same iteration")
            if bad:
                res.add(Finding(R3, "C19.per-iteration|%s" % b.path, "%s %s: balance and unspent list drift apart for that slip" % (name, bad[1]), b.loc(bad[0])))
            else:
                res.sample({"rule": R3, "body": name, "queue": b.name_of(k) or "_%d" % k, "verdict": "each iteration subtracts and queues together, or does neither"})

    # R4: no path subtracts from the balance without (having or going to have) removed a slip from the unspent list on that
    # same path. Removal markers: unspent_slips removals, pushes onto a deferred-removal queue, and the loops that contain them.
    from .c14 import loop_relaxed
    for b in prog.all_bodies():
        if "::tests::" in b.path or "/test/" in b.file:
            continue
        subs = {bb for bb, d in balance_writes(b, fa) if d == "sub"}
        if not subs:
            continue
        markers = {s[1] for s in fa.sites(b, WALLET, "unspent_slips") if s[3] == "remove"}
        for bb, t in b.calls():
            if (call_name(t) or "") == "std::vec::Vec::push" and len(t["args"]) == 2:
                k = recv_local(b, t["args"][0])
                if k is not None and "[u8; 59]" in b.ty(k)["s"]:
                    markers.add(bb)
        marks = loop_relaxed(b, markers)
        for s_ in sorted(subs):
            res.instance(R4)
            name = b.path.split("::", 4)[-1]
            if s_ in marks:
                continue
            before = b.find_path(0, [s_], blocked=marks)
            after = None
            for n in b.succ(s_):
                after = after or b.find_path(n, b.return_blocks(), blocked=marks)
            if before is not None and (after is not None or not b.succ(s_)):
                res.add(Finding(R4, "C19.sub-without-removal|%s" % b.path,
                                "%s can subtract from available_balance on a path that removes nothing from unspent_slips (e.g. a slip that is staked, bound or already "
                                "committed to a pending transaction): the balance falls below the sum of the unspent list" % name, b.loc(s_)))
            else:
                res.sample({"rule": R4, "body": name, "site": b.loc(s_), "verdict": "every subtracting path removes from the unspent list"})

    adt = prog.adts.get("saito_core::core::consensus::wallet::Wallet")
    if adt is None:
        raise LookupError("Wallet ADT not found")
    for f in adt["variants"][0]["fields"]:
        if f["name"] == "available_balance":
            res.instance(R2)
            if f["vis"].startswith("Public"):
                res.add(Finding(R2, "C19.private|field", "Wallet.available_balance is public: any crate can set it without touching unspent_slips", "saito-core/src/core/consensus/wallet.rs"))
            else:
                res.sample({"rule": R2, "field": "available_balance", "visibility": f["vis"][:40]})
    # R6: a wallet slip remembers (block id, transaction ordinal, slip index) and transactions are built from those numbers. A light
    # wallet is fed lite blocks, in which runs of foreign transactions are merged into placeholders: the ordinal must be the counter
    # Block::generate uses (a placeholder advances it by txs_replacements), not the position in the block's transaction list.
    from ..expr import show as _show6
    WOCR = "saito_core::core::consensus::wallet::Wallet::on_chain_reorganization"
    wb6 = prog.body(WOCR)
    if wb6 is None:
        raise LookupError("Wallet::on_chain_reorganization not found")
    ch6 = Chaser(wb6)
    ADD_SLIP = "saito_core::core::consensus::wallet::Wallet::add_slip"
    n6 = 0

    def depends6(e, seen):
        if has_field(e, "transaction::Transaction", "txs_replacements") or _callee_reads_replacements(prog, e):
            return True
        for x in walk(e):
            if x[0] == "local" and x[1] not in seen:
                seen.add(x[1])
                for d in wb6.defs(x[1]):
                    if d[0] == "stmt" and depends6(ch6.rvalue(d[3], 0), seen):
                        return True
        return False
    for bb, t in wb6.calls():
        if (t.get("res") or t.get("callee")) != ADD_SLIP or len(t["args"]) < 3:
            continue
        n6 += 1
        res.instance(R6)
        arg = ch6.origin(t["args"][2])
        slip6 = ch6.origin(t["args"][3]) if len(t["args"]) > 3 else ("unknown",)
        if has_field(slip6, "transaction::Transaction", "from") and not has_field(slip6, "transaction::Transaction", "to"):
            # an input given back on unwind: it returns under the coordinates it has in the ledger - those of the transaction that
            # created it (the input's own block_id / tx_ordinal) - not those of the transaction being unwound
            a_blk = ch6.origin(t["args"][1])
            if has_field(a_blk, "slip::Slip", "block_id") and has_field(arg, "slip::Slip", "tx_ordinal"):
                res.sample({"rule": R6, "site": wb6.loc(bb), "restores": "input under its own (block_id, tx_ordinal)"})
            else:
                res.add(Finding(R6, "C19.ordinal|restored-input", "Wallet::on_chain_reorganization gives a spent output back on unwind under (%s, %s) - the coordinates of the transaction being "
                                "unwound - instead of the output's own block_id / tx_ordinal: the next transaction built from it names an output the ledger does not have, is "
                                "refused, and the funds stay locked in the wallet" % (_show6(a_blk)[:25], _show6(arg)[:25]), wb6.loc(bb)))
            continue
        if depends6(arg, set()):
            res.sample({"rule": R6, "site": wb6.loc(bb), "ordinal": _show6(arg)[:50], "verdict": "a counter that adds txs_replacements for placeholders"})
        else:
            res.add(Finding(R6, "C19.ordinal|%d" % n6, "Wallet::on_chain_reorganization records a slip with the transaction ordinal `%s`, which does not account for txs_replacements: in a "
                            "lite block a payment after a merged placeholder is recorded under the wrong ordinal and every transaction built from that slip names an "
                            "output that does not exist" % _show6(arg)[:40], wb6.loc(bb)))
    if n6 == 0:
        res.instance(R6)
        res.add(Finding(R6, "C19.ordinal|anchors", "Wallet::on_chain_reorganization no longer records slips through Wallet::add_slip (anchor moved?)", wb6.loc(0)))

    # R5: Wallet::generate_slips marks the slips it hands out as spent, takes them off the unspent list and lowers the balance. That is
    # only consistent with the ledger if a transaction spending them follows (it becomes a pending transaction). A caller that can
    # return Err / None after the call leaves slips reserved for nothing: the wallet's unspent list falls below "spendable minus pending".
    from .. import gate as _gate
    from ..paths import Explorer as _Ex, describe_path as _dp
    GS = "saito_core::core::consensus::wallet::Wallet::generate_slips"
    R5_EXCEPTIONS = {
        "saito_core::core::consensus::wallet::Wallet::create_bound_transaction::{closure#0}":
            "the only later Err is `generated_outputs.into_iter().next()` being None, and generate_slips always returns exactly one output (the change slip)",
    }
    n_gs = 0
    for b in prog.all_bodies():
        if "::tests::" in b.path or "/test/" in b.file or b.is_promoted:
            continue
        for bb, t in b.calls():
            if (t.get("res") or t.get("callee")) != GS:
                continue
            n_gs += 1
            res.instance(R5)
            nxt = t.get("t")
            acc = _gate.make_accept(b, return_tags={"Err", "None"})
            found = _Ex(b).explore(nxt, accept=lambda x, env: acc(x, env) if acc(x, env) in ("return-Err", "return-None") else None) if nxt is not None else {}
            if not found:
                res.sample({"rule": R5, "site": b.loc(bb), "verdict": "no failure exit after the reservation"})
            elif b.path in R5_EXCEPTIONS:
                res.sample({"rule": R5, "site": b.loc(bb), "exception": R5_EXCEPTIONS[b.path]})
            else:
                kind, path = sorted(found.items())[0]
                res.add(Finding(R5, "C19.reserve-then-fail|%s" % b.path, "%s can return an error after Wallet::generate_slips has reserved slips: they stay marked spent and off the "
                                "unspent list although no transaction spends them" % b.path.split("::", 3)[-1].replace("::{closure#0}", ""), b.loc(path[-1]), {"path": _dp(b, path)}))
    if n_gs == 0:
        res.add(Finding(R5, "C19.reserve-then-fail|anchors", "no caller of Wallet::generate_slips found (anchor moved?)", None))

    # R7: "transactions the wallet builds ... validate against the ledger they were built on": the wallet's builders add slips through
    # Transaction::add_from_slip / add_to_slip, which silently stop at a cap. Transaction::validate refuses more than K inputs/outputs
    # (`len > K -> false`); the cap (`len < B` before the push allows B afterwards, `len <= B` allows B + 1) must not exceed K, or a
    # payment to many recipients is signed, its inputs leave the wallet, and no ledger will ever accept it.
    from .. import gate as _g7
    from ..linear import Linearizer as _Lz7
    from ..expr import call_name as _cn7
    from ..paths import Explorer as _Ex7
    TXP7 = "saito_core::core::consensus::transaction::Transaction::"
    tv7 = prog.body(TXP7 + "validate")
    if tv7 is None:
        raise LookupError("Transaction::validate not found")
    chv7 = Chaser(tv7)
    lzv7 = _Lz7(tv7, chv7, prog)

    def len_of(fld):
        def pred(a, b):
            return has_field(a, "transaction::Transaction", fld) and any(x[0] == "len" or (x[0] in ("call", "via") and x[1].rsplit("::", 1)[-1] == "len") for x in walk(a)) \
                and not has_field(b, "transaction::Transaction", fld)
        return pred
    for fld, adder in (("from", "add_from_slip"), ("to", "add_to_slip")):
        res.instance(R7)
        ab = prog.body(TXP7 + adder)
        if ab is None:
            res.not_decided.append("C19.slip-cap: Transaction::%s not found" % adder)
            continue
        accepted = None
        for c in _g7.order_edges(tv7, chv7, len_of(fld)):
            k = lzv7.lin(c["b"])
            if k is not None and k.is_const() and c["op"] in ("Gt", "Ge"):
                # only a test whose true edge can no longer reach an accepting return is a cap (`to.len() >= 3` of bound transactions is not)
                if any(_Ex7(tv7).explore(tgt, accept=_g7.make_accept(tv7, return_true=True)) for (_, tgt) in c["true_edges"]):
                    continue
                lim = int(k.c) if c["op"] == "Gt" else int(k.c) - 1
                accepted = lim if accepted is None else min(accepted, lim)
        cha = Chaser(ab)
        lza = _Lz7(ab, cha, prog)
        pushes = {bb for bb, t in ab.calls() if (_cn7(t) or "").rsplit("::", 1)[-1] in ("push", "insert", "extend", "push_within_capacity")}
        cap = None
        guards = set()
        for c in _g7.order_edges(ab, cha, len_of(fld)):
            k = lza.lin(c["b"])
            if k is None or not k.is_const():
                continue
            if c["op"] in ("Lt", "Le"):
                after = int(k.c) if c["op"] == "Lt" else int(k.c) + 1
                guards |= c["true_edges"]
            else:
                after = int(k.c) + 1 if c["op"] == "Gt" else int(k.c)       # push on the false edge of `len > K` / `len >= K`
                guards |= c["false_edges"]
            cap = after if cap is None else max(cap, after)
        unguarded = pushes and ab.reachable(0, deleted_edges=guards) & pushes
        if accepted is None or not pushes:
            res.not_decided.append("C19.slip-cap: limit of Transaction.%s in validate / push in %s not recognised" % (fld, adder))
        elif unguarded or cap is None:
            res.add(Finding(R7, "C19.slip-cap|%s|unbounded" % fld, "Transaction::%s can push without a length test although Transaction::validate accepts at most %d" % (adder, accepted), ab.loc(sorted(pushes)[0])))
        elif cap > accepted:
            res.add(Finding(R7, "C19.slip-cap|%s" % fld, "Transaction::%s lets a transaction grow to %d %s, Transaction::validate (and the wire format) accept at most %d: a wallet "
                            "payment to that many recipients is signed and its inputs reserved, but can never confirm" % (adder, cap, "inputs" if fld == "from" else "outputs", accepted),
                            ab.loc(sorted(pushes)[0])))
        else:
            res.sample({"rule": R7, "builder": adder, "cap_after_push": cap, "validator_accepts": accepted})
    # "on any chain without reorganisation [the wallet's outputs] are exactly the ledger's": the wallet follows the chain only if every
    # wound / unwound block is handed to Wallet::on_chain_reorganization (which also ages out outputs that left the window)
    from ._include import include
    include(res, prog, tier, extra, "c03", ["C03.lockstep"],
            "every wind/unwind step updates the wallet view, unconditionally", keep=lambda f: "|wallet|" in f.key)
    res.explanation = (
        "Decides the structural clause that the balance and the unspent list move together: every body that inserts into / removes from / clears "
        "Wallet.unspent_slips also adds to / subtracts from / zeroes available_balance and vice versa, and nothing outside impl Wallet can write the balance. "
        "Necessary for 'available balance equals the sum of the outputs listed as unspent'. It does not decide amounts, agreement with the ledger or event orders.")
    res.assumptions = ["pairing is per body (not per path) by design: see module docstring"]
    return res


def _callee_reads_replacements(prog, e):
    """the expression calls a workspace function that reads Transaction.txs_replacements (`tx_index += Self::tx_index_step(tx)`)"""
    from ..fields import place_has_field
    for x in walk(e):
        if x[0] == "call" and x[1] in prog.bodies:
            cb = prog.bodies[x[1]]
            if cb.is_promoted or cb.nblocks > 80:
                continue
            for blk in cb.blocks:
                for st in blk["s"]:
                    if st[0] == "=" and "txs_replacements" in repr(st[2]):
                        return True
    return False
