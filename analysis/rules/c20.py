"""C20 - shared locks are taken in the documented global order.

Rule (per program = set of crates linked into one executable): at every site that acquires a lock
(an await of tokio's RwLock/Mutex acquisition coroutine, a try_/blocking_ call) or that calls/awaits a
body whose summary acquires one, for every guard that may be live at that site:
  * acquired class == held class with a write on either side         -> C20.reacquire (self-deadlock)
  * acquired class == held class, read under read                     -> C20.read-reentry: tokio's RwLock is
    fair (a reader queues behind a waiting writer), so a task that re-reads a lock it already read-holds
    deadlocks as soon as another task of the program asks for the write side in between. Reported when
    some live body of the program write-acquires the class and the site is not serialised by the gate.
  * rank(acquired) < rank(held) (ranks read from LOCK_ORDER_* consts) -> C20.inversion, unless excused by
    the property's escape clause: the gate lock is certainly held at the site AND every site of the same
    program that nests the two classes in the documented order is under the gate as well.
  * in saito-wasm the gate is never acquired while any guard is held        -> C20.gate-first
    (ranked acquisitions outside the gate are counted as information: a site that holds nothing
    while it acquires cannot be on a cycle, and the property does not forbid it)
"""
from ..locks import GATE, LockAnalysis, LockModel
from ..report import Finding, Result

NATIVE = {
    "saito-rust": ("saito_core/lib", "saito_rust/lib", "saito_rust/bin"),
    "saito-spammer": ("saito_core/lib", "saito_rust/lib", "saito_spammer/lib", "saito_spammer/bin"),
}
WASM = {"saito-wasm": ("saito_core/lib", "saito_wasm/cdylib")}


def short(p):
    return p.replace("saito_core::core::", "").replace("::{closure#0}", "{async}")


def run(prog, tier, extra_progs=None):
    res = Result("C20", "proof")
    R_INV = res.rule("C20.inversion", "held guard vs. acquired class: rank(acquired) > rank(held), or gate-excused", floor=340)
    R_RE = res.rule("C20.reacquire", "no lock class is re-acquired (with a write on either side) while a guard of it is live", floor=0)
    R_RR = res.rule("C20.read-reentry", "no lock class that the program also write-acquires is read-acquired again under a live read guard of it (fair RwLock: reader queues behind a waiting writer), unless under the gate", floor=0)
    R_FIRST = res.rule("C20.gate-first", "the SAITO gate is acquired with no guard held", floor=33)
    R_SITES = res.rule("C20.acquire-sites", "lock acquire sites found and classified", floor=190)

    model = LockModel(prog)
    unit_by_name = {u.name: u for u in prog.units}
    programs = {}
    for name, unames in list(NATIVE.items()) + list(WASM.items()):
        units = [unit_by_name[n] for n in unames if n in unit_by_name]
        if len(units) != len(unames):
            raise LookupError("program %s: missing units %s" % (name, set(unames) - set(unit_by_name)))
        programs[name] = LockAnalysis(prog, model, units, name, root_units=[u for u in units if u.name != "saito_core/lib"])
    # library bodies that no program reaches are judged on their own, with no gate
    core = unit_by_name["saito_core/lib"]
    live = {}
    for name, la in programs.items():
        live[name] = la.live
    live_any = set().union(*live.values())
    orphan = {p for p, b in core.bodies.items() if not b.is_promoted and p not in live_any}
    programs["saito-core (library API not reached by any program)"] = LockAnalysis(prog, model, [core], "saito-core")
    live["saito-core (library API not reached by any program)"] = orphan

    findings = {}
    gate_info = {"ranked_acquisitions_in_wasm_bodies": 0, "of_which_not_under_gate": 0, "ungated_while_holding_a_guard": []}
    unranked = set()
    n_pairs = 0
    acquire_sites = set()
    per_program = {}
    for name, la in programs.items():
        lv = live[name]
        is_wasm = name in WASM
        nestings = [n for n in la.nestings() if n["body"] in lv]
        # natural-order nestings not under the gate, per class pair
        ungated_natural = {}
        for n in nestings:
            rx, ry = model.rank(n["acquired"]), model.rank(n["held"])
            if rx is not None and ry is not None and rx > ry and GATE not in n["under"]:
                ungated_natural.setdefault(n["held"], set()).add(n["acquired"])

        def ungated_path(a, b):
            """is there a chain of un-gated documented-order nestings a -> ... -> b ?"""
            seen, stack = set(), [a]
            while stack:
                c = stack.pop()
                if c == b:
                    return True
                if c in seen:
                    continue
                seen.add(c)
                stack.extend(ungated_natural.get(c, ()))
            return False
        stats = {"bodies_live": len(lv), "nestings": len(nestings), "inversions_excused_by_gate": 0, "direct_acquire_sites": 0}
        writers = {}
        for p in sorted(lv):
            for (bb, cls, mode, api) in la.direct.get(p, ()):
                if mode == "w":
                    writers.setdefault(cls, []).append(p)
        for p in lv:
            b = la.cg.bodies.get(p)
            if b is None:
                continue
            for (bb, cls, mode, api) in la.direct[p]:
                stats["direct_acquire_sites"] += 1
                if (p, bb) not in acquire_sites:
                    acquire_sites.add((p, bb))
                    res.instance(R_SITES)
                if cls.startswith("unranked:"):
                    unranked.add(cls)
                if is_wasm and b.unit is not core:
                    must = frozenset(c for (c, _, _) in model.held(b, bb, must=True)) | la.entry_must[p]
                    if cls == GATE:
                        res.instance(R_FIRST)
                        held = model.held(b, bb)
                        if held:
                            key = "C20.gate-first|%s|%s" % (p, ",".join(sorted(set(h[0] for h in held))))
                            findings.setdefault(key, Finding(R_FIRST, key,
                                "%s acquires the SAITO gate while holding %s" % (short(p), sorted(set(h[0] for h in held))), b.loc(bb)))
                    elif model.rank(cls) is not None:
                        # information only: single-lock entry points outside the gate hold nothing while they
                        # acquire, so they cannot be part of a cycle; the property does not forbid them
                        gate_info["ranked_acquisitions_in_wasm_bodies"] += 1
                        if GATE not in must:
                            gate_info["of_which_not_under_gate"] += 1
                            if model.held(b, bb):
                                gate_info["ungated_while_holding_a_guard"].append("%s at %s" % (short(p), b.loc(bb)))
        for n in nestings:
            x, y = n["acquired"], n["held"]
            rx, ry = model.rank(x), model.rank(y)
            b = la.cg.bodies[n["body"]]
            if x == y:
                res.instance(R_RE)
                n_pairs += 1
                if "w" in (n["acq_mode"], n["held_mode"]):
                    key = "C20.reacquire|%s|%s|%s" % (n["body"], x, n["callee"] or "direct")
                    path = la.path_to_acquire(n["callee"], x) if n["callee"] else None
                    findings.setdefault(key, Finding(R_RE, key,
                        "%s re-acquires %s(%s) while holding a %s guard of it (`%s`): self-deadlock"
                        % (short(n["body"]), x, n["acq_mode"], n["held_mode"], n["held_name"]), n["loc"],
                        {"program": name, "via": path, "how": n["how"]}))
                else:
                    res.instance(R_RR)
                    wsites = writers.get(x, [])
                    if wsites and GATE not in n["under"]:
                        key = "C20.read-reentry|%s|%s|%s" % (n["body"], x, n["callee"] or "direct")
                        path = la.path_to_acquire(n["callee"], x) if n["callee"] else None
                        findings.setdefault(key, Finding(R_RR, key,
                            "%s read-acquires %s again %s while its read guard `%s` is live; %s write-acquires %s (e.g. %s), "
                            "and tokio's fair RwLock queues the second read behind that writer, which waits for the first guard: deadlock"
                            % (short(n["body"]), x, ("via " + short(n["callee"])) if n["callee"] else "directly", n["held_name"],
                               name, x, short(wsites[0])), n["loc"],
                            {"program": name, "via": path, "how": n["how"], "writers": [short(w) for w in wsites[:5]]}))
                    else:
                        res.sample({"program": name, "site": n["loc"], "body": short(n["body"]), "holds": x, "acquires": x,
                                    "verdict": "read re-entry %s" % ("serialised by the gate" if GATE in n["under"] else "on a class nobody write-acquires")})
                continue
            if rx is None or ry is None:
                continue
            res.instance(R_INV)
            n_pairs += 1
            if rx < ry:
                excused = GATE in n["under"] and not ungated_path(x, y)
                if excused:
                    stats["inversions_excused_by_gate"] += 1
                    res.sample({"program": name, "site": n["loc"], "body": short(n["body"]), "holds": y, "acquires": x,
                                "verdict": "inversion excused: under %s and every %s-then-%s nesting of this program is under it too" % (GATE, x, y)})
                    continue
                key = "C20.inversion|%s|%s->%s|%s" % (n["body"], y, x, n["callee"] or "direct")
                path = la.path_to_acquire(n["callee"], x) if n["callee"] else None
                why = ""
                if GATE in n["under"]:
                    why = " (under the gate, but a %s-then-%s nesting elsewhere in %s is not)" % (x, y, name)
                f = findings.get(key)
                if f is None:
                    findings[key] = Finding(R_INV, key,
                        "%s holds %s[rank %d, %s, `%s`] and acquires %s[rank %d, %s] %s%s"
                        % (short(n["body"]), y, ry, n["held_mode"], n["held_name"], x, rx, n["acq_mode"],
                           ("via " + short(n["callee"])) if n["callee"] else "directly", why), n["loc"],
                        {"programs": [name], "call_path": path, "how": n["how"]})
                else:
                    if name not in f.detail["programs"]:
                        f.detail["programs"].append(name)
            else:
                if len(res.samples) < 6:
                    res.sample({"program": name, "site": n["loc"], "body": short(n["body"]), "holds": "%s(rank %d)" % (y, ry),
                                "acquires": "%s(rank %d)" % (x, rx), "via": short(n["callee"]) if n["callee"] else "direct", "verdict": "ordered"})
        stats["fnptr_calls"] = len(la.cg.fnptr_calls)
        per_program[name] = stats

    for f in sorted(findings.values(), key=lambda f: (f.loc or "", f.key)):
        res.add(f)

    res.extra["programs_analysed"] = per_program
    res.extra["wasm_gate_info"] = gate_info
    res.extra["ranks"] = model.ranks
    res.extra["unranked_lock_classes_seen"] = sorted(unranked)
    res.extra["config_types"] = sorted(model.config_types)
    res.explanation = (
        "Lock-order proof by static acquisition graph: every acquire site and every call/await site of every body live in "
        "each program is paired with every lock guard that rustc's MaybeInitializedPlaces says may be live there; "
        "callee summaries (least fixpoint over resolved calls, resolved awaits, dyn class-hierarchy edges and closure/future creation) "
        "give what a call may acquire. An obligation is one (site, held guard, acquired class) pair or one acquire site; it is discharged when "
        "the ranks from LOCK_ORDER_* increase, or the inversion is serialised by the SAITO gate per the property's escape clause.")
    res.trusted_base = [
        "rustc nightly type checker, MIR construction, Instance::try_resolve, MaybeInitializedPlaces/MaybeUninitializedPlaces",
        "saitolint-driver serialisation of MIR", "tokio 1.37 acquisition API table in analysis/locks.py",
        "spawn-function table in analysis/callgraph.py",
    ]
    res.assumptions = [
        "lock guards are not smuggled through dyn Any / raw pointers / function pointers (fn-pointer calls counted in evidence)",
        "external crates do not re-enter workspace code while a workspace lock is held, except through closures/futures created in workspace bodies (charged at creation or poll site)",
        "a lock class is identified by the protected type T of RwLock<T>/Mutex<T>: two locks of one class are treated as one (conservative)",
        "cfg(test) code and the wasm32 target are not analysed (host-target cargo check of the workspace)",
    ]
    return res
