"""C13 (clause) - the rebroadcast set is committed and compared.

R1 Block::validate (validate_against_utxo = true): accept paths pass the equal edges of
   cv.rebroadcast_hash vs self.rebroadcast_hash and cv.total_rebroadcast_slips vs self.total_rebroadcast_slips
R2 Block::generate derives both header values from exactly the ATR-typed transactions: every write of the two
   fields is reachable only through the ATR arm of the match on transaction_type
"""
from .. import gate
from ..expr import Chaser, has_field
from ..fields import place_has_field
from ..report import Finding, Result
from ._blockvalidate import CORE, BlockValidate

FIELDS = ("rebroadcast_hash", "total_rebroadcast_slips")


def _returns_atr_compare(prog, cb):
    """the closure's result is the comparison slip_type == ATR itself (`|s| s.slip_type == SlipType::ATR`, `matches!(..)`)"""
    ch = Chaser(cb)
    for blk in cb.blocks:
        for st in blk["s"]:
            if st[0] == "=" and st[1] == [0, []]:
                e = ch.rvalue(st[2], 0)
                from ..expr import walk
                for x in walk(e):
                    if x[0] == "call" and x[1] in ("std::cmp::PartialEq::eq",) and any(has_field(a, None, "slip_type") for a in x[2]):
                        v = [gate.promoted_value(prog, cb, a) for a in x[2]]
                        if "ATR" in v:
                            return True
                    if x[0] == "bin" and x[1] == "Eq" and any(y[0] == "discr" and has_field(y, None, "slip_type") for y in (x[2], x[3])):
                        return True
        t = blk["t"]
        if t["k"] == "call" and t["dest"] == [0, []]:
            e = ch.origin(["cp", [0, []]]) if False else None
    for bb, t in cb.calls():
        if t["dest"] == [0, []] and (t.get("callee") or "").endswith("PartialEq::eq") or (t["dest"] == [0, []] and "PartialEq" in (t.get("res") or "")):
            args = [ch.origin(a) for a in t["args"]]
            if any(has_field(a, None, "slip_type") for a in args) and "ATR" in [gate.promoted_value(prog, cb, a) for a in args]:
                return True
    return False


def run(prog, tier, extra=None):
    res = Result("C13", "other")
    R1 = res.rule("C13.compare", "accept paths of Block::validate pass cv.F == self.F for the rebroadcast commitment", floor=2)
    R3 = res.rule("C13.longest-chain-lookup", "consensus values look blocks up by height only through the longest-chain index", floor=1)
    R4 = res.rule("C13.handled", "each still-unspent output of an expiring transaction is rebroadcast or collected as fees", floor=1)
    R5 = res.rule("C13.window-block-on-disk", "every block a full node stores is written to disk whatever its chain membership at that moment (the rebroadcast of block h + genesis_period reads block h from disk)", floor=1)
    R6 = res.rule("C13.fee-deducted", "a rebroadcast whose fee is booked into total_fees_atr reappears worth that much less: the fee flows into what the rebroadcast constructor (or a later write to its outputs) receives", floor=2)
    R2 = res.rule("C13.derive", "Block::generate writes the rebroadcast commitment only under the ATR arm, for every ATR transaction", floor=3)
    bv = BlockValidate(prog)
    b, ch = bv.body, bv.ch
    for f in FIELDS:
        cmp = gate.compare_edges(b, ch, lambda a, c, f=f: bv.is_cv_field(a, f) and bv.is_self_field(c, f))
        res.instance(R1, len(cmp["sites"]))
        if not cmp["sites"]:
            res.add(Finding(R1, "C13.compare|%s|no-comparison" % f, "Block::validate never compares cv.%s with self.%s" % (f, f), b.loc(0)))
            continue
        path, states = bv.must_pass(cmp["eq"], fixed_fields={"validate_against_utxo": True})
        if path:
            res.add(Finding(R1, "C13.compare|%s|bypass" % f,
                            "Block::validate (validate_against_utxo) returns true on a path that never establishes cv.%s == self.%s" % (f, f),
                            b.loc(cmp["sites"][0]), {"path": bv.describe(path)}))
        else:
            res.sample({"rule": R1, "field": f, "comparison": [b.loc(x) for x in cmp["sites"]], "states": states, "verdict": "must-pass holds"})

    g = prog.body(CORE + "consensus::block::Block::generate")
    if g is None:
        raise LookupError("Block::generate not found")
    chg = Chaser(g)
    atr_edges, sites = gate.enum_compare_edges(prog, g, chg, "transaction::TransactionType", "transaction_type", {"ATR"})
    if not atr_edges:
        res.add(Finding(R2, "C13.derive|no-atr-arm", "Block::generate has no branch on transaction_type == ATR", g.loc(0)))
    reach = g.reachable(0, deleted_edges=atr_edges)
    for f in FIELDS:
        writes = []
        resets = []
        for bb, blk in enumerate(g.blocks):
            for st in blk["s"]:
                if st[0] == "=" and place_has_field(st[1], "block::Block", f) is not None:
                    rv = st[2]
                    is_reset = (rv[0] == "use" and rv[1][0] == "k") or (rv[0] == "repeat" and rv[1][0] == "k")
                    if is_reset:
                        resets.append(bb)   # constant re-initialisation, not a derivation
                        continue
                    writes.append(bb)
            t = blk["t"]
            if t["k"] == "call" and place_has_field(t["dest"], "block::Block", f) is not None:
                writes.append(bb)
        res.instance(R2, len(writes))
        if not writes:
            res.add(Finding(R2, "C13.derive|%s|never-written" % f, "Block::generate never computes self.%s" % f, g.loc(0)))
        outside = [bb for bb in writes if bb in reach]
        if outside:
            res.add(Finding(R2, "C13.derive|%s|outside-atr" % f, "Block::generate writes self.%s on a path that does not go through the ATR arm" % f, g.loc(outside[0])))
        elif writes:
            res.sample({"rule": R2, "field": f, "writes": [g.loc(x) for x in writes], "verdict": "all under the ATR arm"})
        if f == "rebroadcast_hash" and writes and atr_edges:
            # ... and every ATR-typed transaction contributes: from the ATR arm, the loop cannot move on to the next
            # transaction (or leave) without passing the write
            res.instance(R2)
            switch_blocks = {bb for bb, _ in atr_edges}
            goals = set(g.return_blocks()) | switch_blocks
            skipped = None
            for (sb, tgt) in sorted(atr_edges):
                p = g.find_path(tgt, goals, blocked=set(writes))
                if p:
                    skipped = p
                    break
            if skipped:
                res.add(Finding(R2, "C13.derive|rebroadcast_hash|atr-skipped",
                                "Block::generate can pass an ATR-typed transaction without folding it into rebroadcast_hash: such a transaction is not "
                                "covered by the rebroadcast commitment that Block::validate compares", g.loc(skipped[0])))
            else:
                res.sample({"rule": R2, "field": f, "verdict": "every ATR-typed transaction is folded into the hash"})
    # R2b: both sides count the same thing. generate_consensus_values adds one to cv.total_rebroadcast_slips per rebroadcast
    # transaction it creates, and each of those carries exactly one ATR-typed output (an NFT group travels as [Bound, ATR, Bound]);
    # Block::generate therefore has to count the ATR-typed outputs of the ATR transactions: `+ 1` behind a test slip_type == ATR, or
    # the count() of a filter whose closure makes that test. Counting anything else (all outputs, transactions) makes producer and
    # validator disagree as soon as an NFT group is rebroadcast
    from ..expr import strip, walk
    slip_atr, _ = gate.enum_compare_edges(prog, g, chg, "slip::SlipType", "slip_type", {"ATR"})
    from ..paths import Explorer

    def reachable_without_slip_test(target):
        # path-sensitive: `matches!(slip.slip_type, SlipType::ATR)` is lowered to a bool temporary that is switched on afterwards
        found = Explorer(g).explore(0, deleted_edges=slip_atr, accept=lambda b_, env: "hit" if b_ == target else None)
        return bool(found)
    for bb, blk in enumerate(g.blocks):
        for st in blk["s"]:
            if st[0] != "=" or place_has_field(st[1], "block::Block", "total_rebroadcast_slips") is None:
                continue
            rv = st[2]
            if (rv[0] == "use" and rv[1][0] == "k") or (rv[0] == "repeat" and rv[1][0] == "k"):
                continue
            res.instance(R2)
            e = strip(chg.rvalue(rv, 0))
            if e[0] == "field" and e[1][0] == "bin":
                e = e[1]
            addend = None
            if e[0] == "bin" and e[1].startswith("Add"):
                for x, y in ((e[2], e[3]), (e[3], e[2])):
                    if has_field(x, "block::Block", "total_rebroadcast_slips"):
                        addend = y
            ok = False
            why = "is not of the form total_rebroadcast_slips + n"
            if addend is not None:
                a = strip(addend)
                if a[0] == "const" and a[1] == 1:
                    ok = bool(slip_atr) and not reachable_without_slip_test(bb)
                    why = "adds 1 on a path that does not pass a test slip_type == ATR"
                else:
                    why = "adds a value that is not the number of ATR-typed outputs"
                    for x in walk(addend):
                        if x[0] in ("call", "via") and x[1].rsplit("::", 1)[-1] in ("count", "filter", "sum"):
                            for y in walk(x):
                                if y[0] == "agg" and y[1][0] == "closure":
                                    cb = prog.bodies.get(y[1][1])
                                    if cb is not None:
                                        ce, _ = gate.enum_compare_edges(prog, cb, Chaser(cb), "slip::SlipType", "slip_type", {"ATR"})
                                        if ce or _returns_atr_compare(prog, cb):
                                            ok = True
            if ok:
                res.sample({"rule": R2, "field": "total_rebroadcast_slips", "site": g.loc(bb), "verdict": "counts ATR-typed outputs"})
            else:
                res.add(Finding(R2, "C13.derive|total_rebroadcast_slips|count-unit",
                                "Block::generate %s: generate_consensus_values counts one per rebroadcast transaction (one ATR-typed output each), so the two "
                                "totals differ as soon as a rebroadcast carries other outputs (an NFT group is [Bound, ATR, Bound])" % why, g.loc(bb)))
    # R3: the block whose outputs are rebroadcast is the longest-chain block at the expiring height: inside the consensus value
    # computation every lookup of a block by height goes through the longest-chain index, never through "any block at this id"
    from ..callgraph import CallGraph
    from ..expr import call_name
    cg = CallGraph(prog, [u for u in prog.units if u.crate == "saito_core"])
    GCV = CORE + "consensus::block::Block::generate_consensus_values::{closure#0}"
    if GCV not in cg.bodies:
        raise LookupError("generate_consensus_values not found")
    live = cg.reachable_from([GCV], kinds=("call", "await", "creates"))
    ANY = CORE + "consensus::blockring::BlockRing::get_block_hash_by_block_id"
    LC = CORE + "consensus::blockring::BlockRing::get_longest_chain_block_hash_at_block_id"
    n_lc = 0
    for p in sorted(live):
        body = cg.bodies[p]
        for bb, t in body.calls():
            n = call_name(t)
            if n == LC:
                n_lc += 1
                res.instance(R3)
            elif n == ANY:
                res.instance(R3)
                res.add(Finding(R3, "C13.longest-chain-lookup|%s" % p, "%s looks a block up by height with BlockRing::get_block_hash_by_block_id (any chain) while computing consensus values: "
                                "after a fork the rebroadcast set is taken from a block that is not on the longest chain" % p.replace(CORE, "")[-60:], body.loc(bb)))
    if n_lc == 0:
        res.add(Finding(R3, "C13.longest-chain-lookup|none", "the consensus value computation no longer looks the expiring block up through the longest-chain index", cg.bodies[GCV].loc(0)))
    else:
        res.sample({"rule": R3, "longest_chain_lookups": n_lc, "bodies_in_scope": len(live), "verdict": "all by-height lookups use the longest-chain index"})

    # R4: every still-unspent output collected from an expiring transaction is handled: once a slip was queued (after Slip::validate
    # said it is still spendable) the code cannot move on to the next transaction without entering the loop that either rebroadcasts
    # it or collects it as fees, and each iteration of that loop does one of the two
    from .. import gate as _gate
    from ..expr import Chaser as _Ch
    from .c09 import recv_local
    gcv = cg.bodies[GCV]
    chq = _Ch(gcv)
    val = _gate.bool_switch_edges(gcv, chq, lambda e: e[0] == "call" and e[1].endswith("slip::Slip::validate"))
    pushes = {}
    for bb, t in gcv.calls():
        if (call_name(t) or "") == "std::vec::Vec::push" and len(t["args"]) == 2:
            k = recv_local(gcv, t["args"][0])
            if k is not None and "slip::Slip" in gcv.ty(k)["s"]:
                pushes.setdefault(k, set()).add(bb)
    unreach = gcv.reachable(0, deleted_edges=val["true"])
    queues = {k: P for k, P in pushes.items() if val["sites"] and all(p not in unreach for p in P)}
    handling = set()
    for bb, t in gcv.calls():
        n = call_name(t) or ""
        if n.endswith("Transaction::create_rebroadcast_transaction") or n.endswith("Transaction::create_rebroadcast_bound_transaction"):
            handling.add(bb)
    for bb, blk in enumerate(gcv.blocks):
        for st in blk["s"]:
            if st[0] == "=" and any(isinstance(pr, list) and pr[0] == "f" and pr[3] == "total_fees_atr" and pr[2].endswith("ConsensusValues") for pr in st[1][1]):
                e = chq.rvalue(st[2], 0)
                if any(x[0] == "bin" and x[1].startswith("Add") for x in __import__("analysis.expr", fromlist=["walk"]).walk(e)):
                    handling.add(bb)
    if not queues or not handling:
        res.add(Finding(R4, "C13.handled|anchors", "the ATR section no longer queues validated unspent outputs / handles them (queue found: %s, handling sites: %d)"
                        % (bool(queues), len(handling)), gcv.loc(0)))
    for k, P in queues.items():
        res.instance(R4)
        dom = gcv.dominators()

        def headers_of(blocks):
            return [h for h in range(gcv.nblocks) if all(gcv.dominates(h, x) for x in blocks) and all(h in gcv.reachable(x) for x in blocks)]
        HL = gcv.innermost_loop_containing(handling)
        OL = gcv.innermost_loop_containing(P | handling)
        if HL is None or OL is None or HL == OL:
            res.not_decided.append("C13.handled: loop structure of the ATR section not recognised")
            continue
        empty = _gate.bool_switch_edges(gcv, chq, lambda e: e[0] == "call" and e[1].rsplit("::", 1)[-1] == "is_empty" and e[2] and
                                        (lambda r: r[0] == "local" and r[1] == k)(__import__("analysis.expr", fromlist=["strip"]).strip(e[2][0])))
        # a queue that is tested through a reference: fall back to any is_empty() on a Vec of slips
        if not empty["sites"]:
            empty = _gate.bool_switch_edges(gcv, chq, lambda e: e[0] == "call" and e[1] == "std::vec::Vec::is_empty")
        bad = None
        for p in sorted(P):
            nxt = gcv.term(p).get("t")
            path = gcv.find_path(nxt, set(gcv.return_blocks()) | {OL}, deleted_edges=empty["true"], blocked={HL}) if nxt is not None else None
            if path:
                bad = (p, path)
                break
        if bad:
            res.add(Finding(R4, "C13.handled|queued-output-skipped", "generate_consensus_values can queue a still-unspent output of an expiring transaction and then move on "
                            "without rebroadcasting it or collecting it as fees", gcv.loc(bad[1][-2] if len(bad[1]) > 1 else bad[0]), {"queued_at": gcv.loc(bad[0])}))
            continue
        # each iteration of the handler loop handles
        skip = None
        loop_body = gcv.natural_loop(HL)
        outside = set(range(gcv.nblocks)) - loop_body
        for n in gcv.succ(HL):
            if n in loop_body:
                pth = gcv.find_path(n, {HL}, blocked=handling | outside)
                if pth:
                    skip = pth
        # what is booked as fees: an iteration that rebroadcasts books the rebroadcast fee, an iteration that does not
        # rebroadcast collects the output's own amount ("if too small to pay the fee, its value is collected as fees")
        rebro = {bb for bb in handling if gcv.term(bb)["k"] == "call" and "create_rebroadcast" in (call_name(gcv.term(bb)) or "")}
        from ..expr import has_field as _hf, walk as _wk
        for bb in sorted(handling - rebro):
            addend_is_amount = None
            for st in gcv.stmts(bb):
                if st[0] == "=" and any(isinstance(pr, list) and pr[0] == "f" and pr[3] == "total_fees_atr" for pr in st[1][1]):
                    e = chq.rvalue(st[2], 0)
                    for x in _wk(e):
                        if x[0] == "bin" and x[1].startswith("Add") and (_hf(x[2], "ConsensusValues", "total_fees_atr") or _hf(x[3], "ConsensusValues", "total_fees_atr")):
                            other = x[3] if _hf(x[2], "ConsensusValues", "total_fees_atr") else x[2]
                            addend_is_amount = _hf(other, "slip::Slip", "amount") and not any(y[0] == "bin" and y[1].startswith(("Mul", "Sub")) for y in _wk(other))
            if addend_is_amount is None:
                continue
            res.instance(R4)
            on_plain = any(gcv.find_path(n, {bb}, blocked=rebro | outside) for n in gcv.succ(HL) if n in loop_body) and \
                any(gcv.find_path(n, {HL}, blocked=rebro | outside) for n in gcv.succ(bb) if n in loop_body)
            on_rebro = not on_plain or any(gcv.find_path(r, {bb}, blocked=outside) or gcv.find_path(bb, {r}, blocked=outside | {HL}) for r in rebro)
            if on_plain and not addend_is_amount:
                res.add(Finding(R4, "C13.handled|dust-booked-as-fee", "an output that is not rebroadcast adds something other than its own amount to total_fees_atr: "
                                "the difference is created or destroyed", gcv.loc(bb, None)))
            elif addend_is_amount and not on_plain:
                res.add(Finding(R4, "C13.handled|amount-booked-on-rebroadcast", "a rebroadcast output also has its whole amount booked as fees (counted twice)", gcv.loc(bb, None)))
        if skip:
            res.add(Finding(R4, "C13.handled|iteration-without-handling", "an iteration of the ATR handling loop can finish without rebroadcasting the output or collecting it as fees", gcv.loc(skip[0])))
        else:
            res.sample({"rule": R4, "queue": gcv.name_of(k) or "_%d" % k, "queued_at": [gcv.loc(x) for x in sorted(P)][:4], "handler_loop": gcv.loc(HL),
                        "verdict": "every queued output reaches the handler; every iteration rebroadcasts or collects"})

    # R5: generate_consensus_values loads the block leaving the window from disk and, when the file is missing, silently derives no
    # rebroadcasts. add_block_success is the only writer, and it runs once per block, when the block arrives - possibly as a
    # side-chain block that joins the longest chain later. The write may therefore depend only on what kind of node/block this is
    # (header-only block, browser, SPV mode), never on chain membership or other chain state at arrival time.
    from ..expr import show as _sh5, walk as _wk5
    abs5 = prog.body(CORE + "consensus::blockchain::Blockchain::add_block_success::{closure#0}")
    if abs5 is None:
        raise LookupError("Blockchain::add_block_success not found")
    ch5 = Chaser(abs5)
    writes = [bb for bb, t in abs5.calls() if "Storage::write_block_to_disk" in (t.get("res") or t.get("callee") or "")]
    res.instance(R5)
    if not writes:
        res.add(Finding(R5, "C13.window-block-on-disk|not-written", "add_block_success no longer writes the block to disk", abs5.loc(0)))
    else:
        w = writes[0]
        live5 = abs5.reachable(0)
        reach_w = {bb: (w in abs5.reachable(bb) or bb == w) for bb in range(len(abs5.blocks))}
        bad5, ok5 = [], []
        for bb, blk in enumerate(abs5.blocks):
            t = blk["t"]
            if t["k"] != "switch" or bb not in live5 or not reach_w[bb] or all(reach_w[x] for x in abs5.succ(bb)):
                continue
            e = ch5.origin(t["discr"])
            chain_state = [x for x in _wk5(e) if (x[0] == "field" and ((x[2].endswith("block::Block") and x[3] != "block_type")
                                                                     or x[2].endswith("blockring::BlockRing") or x[2].endswith("ringitem::RingItem")))
                           or (x[0] in ("call", "via") and ("BlockRing::" in x[1] or "is_block_indexed" in x[1] or "get_latest_block" in x[1]))]
            if chain_state:
                bad5.append((bb, e))
            else:
                ok5.append(_sh5(e)[:50])
        if bad5:
            bb, e = bad5[0]
            res.add(Finding(R5, "C13.window-block-on-disk|conditional", "add_block_success writes the block to disk only when `%s`: a block stored while that does not hold (e.g. as a side-chain "
                            "block that becomes part of the longest chain by a later reorganisation) is never written, and a genesis period later its unspent outputs are "
                            "not rebroadcast because the block cannot be loaded" % _sh5(e)[:70], abs5.loc(bb)))
        else:
            res.sample({"rule": R5, "write": abs5.loc(w), "conditions": ok5, "verdict": "depends on node/block kind only"})

    # R6: "it reappears for the same owner (value plus treasury payout minus the rebroadcast fee)". Each rebroadcast branch of
    # generate_consensus_values builds the ATR transaction and adds a fee to cv.total_fees_atr. If the fee is booked but the rebroadcast
    # output is not reduced by it, the fee exists twice (the supply check then aborts every node that winds the block).
    from ..fields import place_has_field as _phf6
    from ..expr import walk as _wk6, call_name as _cn6
    ch6 = Chaser(gcv)

    def _deps(e, body, ch, limit=80):
        seen, work, out = set(), [e], set()
        while work and len(seen) < limit:
            x = work.pop()
            for y in _wk6(x):
                if y[0] == "local" and y[1] not in seen:
                    seen.add(y[1])
                    out.add(y[1])
                    for d in body.defs(y[1]):
                        v = ch.rvalue(d[3], 0) if d[0] == "stmt" else ch.call(d[2], d[1], 0) if d[0] == "call" else None
                        if v is not None:
                            work.append(v)
                    for d in body.partial_defs(y[1]):
                        if d[0] == "stmt":
                            work.append(ch.rvalue(d[3][2], 0))      # partial defs carry the whole statement
        return out
    ctor_sites = [(bb, t) for bb, t in gcv.calls() if (_cn6(t) or "").rsplit("::", 1)[-1].startswith("create_rebroadcast") and "Transaction" in (_cn6(t) or "")]
    fee_adds = {}
    for bb, blk in enumerate(gcv.blocks):
        for st in blk["s"]:
            if st[0] == "=" and _phf6(st[1], "ConsensusValues", "total_fees_atr") is not None:
                fee_adds[bb] = ch6.rvalue(st[2], 0)
    for cbb, ct in ctor_sites:
        res.instance(R6)
        hloop = gcv.innermost_loop_containing([cbb])
        stop = {hloop} if hloop is not None else set()
        region = gcv.reachable(cbb, blocked=stop)
        # the fee booked in the same arm: before or after the constructor call, on the same straight stretch (one dominates the other,
        # same innermost loop), nearest in reverse post-order
        order6 = {b_: i for i, b_ in enumerate(gcv.rpo())}
        fees_here = [(abs(order6.get(fb, 10 ** 6) - order6.get(cbb, 0)), fb, fe) for fb, fe in fee_adds.items()
                     if (gcv.dominates(fb, cbb) or gcv.dominates(cbb, fb)) and gcv.innermost_loop_containing([fb]) == hloop]
        if not fees_here:
            res.sample({"rule": R6, "site": gcv.loc(cbb), "verdict": "no fee booked for this rebroadcast"})
            continue
        _, fb, fe = sorted(fees_here)[0]
        fee_locals = {y[1] for y in _wk6(fe) if y[0] == "local"} | _deps(fe, gcv, ch6)
        fee_locals = {l for l in fee_locals if (gcv.name_of(l) or "").find("fee") >= 0} or fee_locals
        arg_deps = set()
        for a in ct["args"]:
            arg_deps |= _deps(ch6.origin(a), gcv, ch6)
        later = set()
        d0 = ct["dest"][0]
        for rb in region:
            for st in gcv.stmts(rb):
                if st[0] == "=" and st[1][1]:
                    base6 = st[1][0]
                    into_tx = base6 == d0
                    if not into_tx:
                        # `rebroadcast_tx.to[1].amount = ..` writes through the reference IndexMut::index_mut returned
                        for d in gcv.defs(base6):
                            v6 = ch6.call(d[2], d[1], 0) if d[0] == "call" else ch6.rvalue(d[3], 0) if d[0] == "stmt" else None
                            if v6 is not None and any((y[0] == "local" and y[1] == d0) or (y[0] in ("call", "via") and isinstance(y[-1], int) and y[-1] == cbb) for y in _wk6(v6)):
                                into_tx = True
                    if into_tx:
                        later |= _deps(ch6.rvalue(st[2], 0), gcv, ch6)
        # the constructor's result may be handed straight to a helper together with the fee-dependent amount:
        # `Self::with_payload_amount(Transaction::create_rebroadcast_bound_transaction(..), payout - fee)`
        for rb in region | {cbb}:
            t6 = gcv.term(rb)
            if t6["k"] == "call" and rb != cbb:
                origins6 = [ch6.origin(a) for a in t6["args"]]
                if any(any(y[0] in ("call", "via") and isinstance(y[-1], int) and y[-1] == cbb for y in _wk6(o)) or any(y[0] == "local" and y[1] == d0 for y in _wk6(o)) for o in origins6) \
                        and (_cn6(t6) or "").startswith(("saito_", "<saito_")):
                    for o in origins6:
                        later |= _deps(o, gcv, ch6) | {y[1] for y in _wk6(o) if y[0] == "local"}
        if fee_locals & (arg_deps | later):
            res.sample({"rule": R6, "site": gcv.loc(cbb), "fee_booked_at": gcv.loc(fb), "verdict": "the fee reaches the rebroadcast transaction"})
        else:
            res.add(Finding(R6, "C13.fee-deducted|%s" % (_cn6(ct) or "").rsplit("::", 1)[-1], "generate_consensus_values books a rebroadcast fee into total_fees_atr (%s) but nothing handed to %s, and "
                            "nothing written into the transaction it returns, depends on that fee: the output reappears with the full amount and the fee exists twice"
                            % (gcv.loc(fb), (_cn6(ct) or "").rsplit("::", 1)[-1]), gcv.loc(cbb)))
    # a rebroadcast "consumes" the expiring output only if its input is looked up in the UTXO set like any other input
    from ._include import include
    include(res, prog, tier, extra, "c03", ["C03.ring-positions"],
            "the block leaving the window, and whether rebroadcasts are checked at all, are found through the by-height index: its positions must be ring positions")
    include(res, prog, tier, extra, "c03", ["C03.tx-apply-total"],
            "a rebroadcast replaces the expiring output - and a reorganisation gives it back - only if every input and output of every transaction is (un)wound")
    include(res, prog, tier, extra, "c01", ["C01.input-window"],
            "'an output older than the window can no longer be spent': the dust outputs collected as fees stay in the UTXO set, so only the window test keeps them unspendable")
    include(res, prog, tier, extra, "c01", ["C01.utxo-lookup"],
            "the rebroadcast commitment does not cover an input's block id / ordinal: only the ledger lookup ties the rebroadcast to the output it replaces")
    res.explanation = (
        "Decides that the rebroadcast set is committed and compared: the validator's recomputed rebroadcast hash and rebroadcast-slip count must equal the header's on "
        "every accepting path (consensus mode), and the header values are accumulated in Block::generate only from ATR-typed transactions. Necessary for "
        "'no other output is rebroadcast, nothing twice'. It does not decide which outputs are eligible, ownership, amounts or expiry across histories.")
    res.assumptions = ["validate_against_utxo fixed to true; exempt exits SPV mode / ghost blocks"]
    return res
