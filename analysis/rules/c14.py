"""C14 (clause) - the pool and its reservation index move together.

R1 every site that removes transactions from Mempool.transactions releases their reserved inputs in Mempool.utxo_map:
   on every path from the site to a success exit (or inside the retain-style closure that decides the removal)
R2 every site that inserts into Mempool.transactions outside Mempool::add_transaction records the reservation
R4 a reservation is released only for a transaction that actually left the pool (the released key derives from the value
   returned by transactions.remove(), from the element a retain closure drops, or from the block built by draining the pool)
R3 bundling failure leaves the pool unchanged: after the draining call in bundle_block no None exit is reachable
   without re-inserting into Mempool.transactions
"""
from .. import gate
from ..expr import Chaser, call_name, calls_in, has_field, show, walk
from ..fields import FieldAnalysis
from ..paths import Explorer, describe_path
from ..report import Finding, Result

CORE = "saito_core::core::"
MEMPOOL = "mempool::Mempool"
EXCEPTIONS = {
    CORE + "consensus::mempool::Mempool::bundle_genesis_block::{closure#0}":
        "at genesis the pool holds only input-less issuance transactions: nothing is reserved, nothing to release",
}


# failure exits of bundle_block after the drain that cannot be taken: one symbol, one reason
R3_EXCEPTIONS = {
    "Block::generate": "the only Err of Block::generate is its double-spend scan, which Block::create has already run on these "
                       "transactions and switched off (created_hashmap_of_slips_spent_this_block = true) before bundle_block calls generate again",
}


def loop_relaxed(body, blocks):
    """blocks plus the headers of loops that contain them (a zero-iteration loop has nothing to release)"""
    out = set(blocks)
    for h in range(body.nblocks):
        lb = body.natural_loop(h)
        if lb and any(r in lb for r in blocks):
            out.add(h)
    return out


def success_exit(body):
    def accept(bb, env):
        t = body.term(bb)
        if t["k"] == "return":
            v = env.get(0)
            if isinstance(v, str) and v in ("None", "Err"):
                return None
            return "return"
        return None
    return accept


def closure_args(body, bb, prog):
    """closure bodies passed (directly) to the call at bb"""
    out = []
    ch = Chaser(body)
    t = body.term(bb)
    for a in t.get("args", []):
        e = ch.origin(a)
        stack = [e]
        while stack:
            x = stack.pop()
            if x[0] == "agg" and x[1][0] == "closure":
                cb = prog.bodies.get(x[1][1])
                if cb is not None:
                    out.append(cb)
            elif x[0] in ("via", "ref", "deref"):
                stack.append(x[2] if x[0] == "via" else x[1])
    return out


def _preds_chain(body, bb, hops=6):
    out, cur = [], bb
    for _ in range(hops):
        ps = body.pred(cur)
        if len(ps) != 1:
            break
        cur = ps[0]
        out.append(cur)
    return out


def run(prog, tier, extra=None):
    res = Result("C14", "other")
    R1 = res.rule("C14.release", "removing pooled transactions releases their input reservations", floor=3)
    R2 = res.rule("C14.reserve", "inserting pooled transactions records their input reservations", floor=1)
    R4 = res.rule("C14.release-only-removed", "utxo_map entries are released only for transactions that left the pool", floor=1)
    R5 = res.rule("C14.cached-work", "the cached routing work of the pool is reset or adjusted whenever pooled transactions are removed or inserted", floor=4)
    R6 = res.rule("C14.revalidate", "the pool is re-validated against the ledger on every block addition", floor=2)
    R3 = res.rule("C14.bundle-atomic", "bundle_block: no failure exit after the pool was drained without re-insertion", floor=1)
    R8 = res.rule("C14.pool-types", "the pool's admission point cannot insert a transaction of a type that only a block may contain (Fee, ATR, SPV; Issuance once the chain has a block)", floor=4)
    R9 = res.rule("C14.bundle-no-assert", "Mempool::bundle_block contains no assertion: a condition under which it cannot bundle is answered with None, not by taking the node down", floor=1)
    R10 = res.rule("C14.sweep-window", "the pool sweep after a block addition also drops transactions whose inputs have left the retention window", floor=1)
    R7 = res.rule("C14.refused-block-restored", "a refused block's transactions are offered back to the pool's insertion point: add_block_failure cannot finish, once it holds the block, without add_block_transactions_back", floor=1)
    fa = FieldAnalysis(prog)
    tx_sites, map_sites, map_sites_through = {}, {}, {}
    for b in prog.all_bodies():
        if "::tests::" in b.path or "/test/" in b.file or b.unit.crate not in ("saito_core", "saito_rust", "saito_spammer", "saito_wasm"):
            continue
        s = [x for x in fa.sites(b, MEMPOOL, "transactions") if x[3] in ("insert", "remove", "replace", "unknown")]
        if s:
            tx_sites[b.path] = (b, s)
        m = [x for x in fa.sites(b, MEMPOOL, "utxo_map") if x[3] in ("insert", "remove", "replace", "unknown")]
        if m:
            map_sites[b.path] = (b, m)
        # release / reserve done by a helper that is handed the pool itself (`self.release_reserved_inputs(&tx)`)
        mt = [x for x in fa.sites(b, MEMPOOL, "utxo_map", through_self=True) if x[3] in ("insert", "remove", "replace", "unknown")]
        if mt:
            map_sites_through[b.path] = (b, mt)

    def closure_bodies_under(path):
        return [prog.bodies[p] for p in prog.bodies if p.startswith(path + "::{closure") and not prog.bodies[p].is_promoted]

    def map_blocks(b, kinds):
        out = {x[1] for x in map_sites_through.get(b.path, (b, []))[1] if x[3] in kinds}
        # ... and calls that are handed a closure which does it (`txs.iter().flat_map(..).for_each(|input| { self.utxo_map.remove(..); })`)
        touching = {cb.path for cb in closure_bodies_under(b.path) if any(x[3] in kinds for x in map_sites.get(cb.path, (cb, []))[1])}
        if touching:
            chb_ = Chaser(b)
            for bb, t in b.calls():
                for a in t.get("args", []):
                    if any(y[0] == "agg" and y[1][0] == "closure" and (y[1][1] in touching or any(tp.startswith(y[1][1] + "::") for tp in touching))
                           for y in walk(chb_.origin(a))):
                        out.add(bb)
        return out

    def unreleased_path(b, bb, depth=0):
        """a path from the removal at bb (or from the call at bb that removes without releasing) to a success exit that passes no
        release of utxo_map; when the body is a helper (it has callers), the obligation moves to each call site"""
        rel = loop_relaxed(b, map_blocks(b, ("remove", "replace")))
        ex = Explorer(b)
        t = b.term(bb)
        start = t.get("t") if t["k"] == "call" else bb
        found = ex.explore(start, blocked=rel - {bb}, accept=success_exit(b)) if start is not None else {}
        if not found:
            return None
        p = sorted(found.items())[0][1]
        if depth < 2:
            target = b.path[: -len("::{closure#0}")] if b.path.endswith("::{closure#0}") and b.is_coroutine else b.path
            callers = []
            for cb in prog.all_bodies():
                if "::tests::" in cb.path or "/test/" in cb.file or cb.path == b.path:
                    continue
                for cbb, ct in cb.calls():
                    if (ct.get("res") or ct.get("callee")) == target:
                        callers.append((cb, cbb))
            if callers:
                for cb, cbb in callers:
                    r = unreleased_path(cb, cbb, depth + 1)
                    if r is not None:
                        return r
                return None
        return (b, [bb] + p)

    def closure_touches_map(cb, kinds, depth=0):
        if any(x[3] in kinds for x in map_sites.get(cb.path, (cb, []))[1]):
            return True
        return False

    for path, (b, sites) in sorted(tx_sites.items()):
        name = path.split("::", 4)[-1]
        for s in sites:
            bb = s[1]
            what = s[2] if s[0] == "call" else "assignment"
            short = what.rsplit("::", 2)[-2:] if "::" in what else [what]
            if s[3] in ("remove", "replace", "unknown"):
                res.instance(R1)
                if path in EXCEPTIONS:
                    res.sample({"rule": R1, "site": b.loc(bb), "body": name, "exception": EXCEPTIONS[path]})
                    continue
                key = "C14.release|%s|%s" % (path, "::".join(short))
                ok_closure = any(closure_touches_map(cb, ("remove", "replace")) for cb in closure_args(b, bb, prog)) if s[0] == "call" else False
                if ok_closure:
                    res.sample({"rule": R1, "site": b.loc(bb), "body": name, "verdict": "released inside the deciding closure"})
                    continue
                bad = unreleased_path(b, bb)
                if bad:
                    wb, p = bad
                    res.add(Finding(R1, key, "%s removes transactions from the pool (%s) and can finish without releasing their reserved inputs in utxo_map%s"
                                    % (name, "::".join(short), "" if wb is b else " (judged at its caller %s)" % wb.path.split("::", 4)[-1]),
                                    b.loc(bb), {"path": describe_path(wb, p)}))
                else:
                    res.sample({"rule": R1, "site": b.loc(bb), "body": name, "via": "::".join(short), "verdict": "every success path releases utxo_map"})
            if s[3] in ("insert", "replace", "unknown"):
                if path == CORE + "consensus::mempool::Mempool::add_transaction::{closure#0}":
                    # the insertion point itself: checked the same way
                    pass
                res.instance(R2)
                key = "C14.reserve|%s|%s" % (path, "::".join(short))
                rel = loop_relaxed(b, map_blocks(b, ("insert", "replace")))
                ex = Explorer(b)
                t = b.term(bb)
                start = t.get("t") if t["k"] == "call" else bb
                found = ex.explore(start, blocked=rel - {bb}, accept=success_exit(b)) if start is not None else {}
                if found:
                    p = sorted(found.items())[0][1]
                    res.add(Finding(R2, key, "%s inserts transactions into the pool (%s) and can finish without reserving their inputs in utxo_map"
                                    % (name, "::".join(short)), b.loc(bb), {"path": describe_path(b, [bb] + p)}))
                else:
                    res.sample({"rule": R2, "site": b.loc(bb), "body": name, "verdict": "every success path reserves in utxo_map"})

    def key_ok(b, key, depth):
        """why the released key belongs to a transaction that left the pool (None if it cannot be shown)"""
        ok = None
        for x in walk(key):
            if x[0] == "call" and x[1].rsplit("::", 1)[-1] in ("remove", "remove_entry", "take", "pop") and any(
                    has_field(a, MEMPOOL, "transactions") for a in x[2][:1]):
                ok = "the key comes from the transaction returned by transactions.%s()" % x[1].rsplit("::", 1)[-1]
            if x[0] == "call" and x[1].endswith("block::Block::create"):
                ok = "the key comes from the block built by draining the pool"
        if ok is None and b.kind == "Closure" and not b.is_coroutine:
            # a retain-style closure over the pool: the key comes from the element being decided
            parent = prog.bodies.get(b.parent)
            used_by_retain = False
            if parent is not None:
                pch = Chaser(parent)
                for pbb, pt in parent.calls():
                    if (call_name(pt) or "").rsplit("::", 1)[-1] in ("retain", "retain_mut", "extract_if") and pt["args"] and \
                            has_field(pch.origin(pt["args"][0]), MEMPOOL, "transactions"):
                        for a in pt["args"][1:]:
                            if any(y[0] == "agg" and y[1][0] == "closure" and y[1][1] == b.path for y in walk(pch.origin(a))):
                                used_by_retain = True
            if used_by_retain and any(y[0] == "param" and y[1] >= 2 for y in walk(key)):
                ok = "inside the retain closure over the pool: the key comes from the element being dropped"
            if ok is None and parent is not None and depth < 3 and any(y[0] == "param" and y[1] >= 2 for y in walk(key)):
                # a closure handed to for_each / map / flat_map ..: its element comes from what the parent iterates over
                pch = Chaser(parent)
                for pbb, pt in parent.calls():
                    last = (call_name(pt) or "").rsplit("::", 1)[-1]
                    if last not in ("for_each", "map", "flat_map", "filter", "filter_map", "inspect", "try_for_each", "fold", "any", "all") or not pt["args"]:
                        continue
                    if not any(y[0] == "agg" and y[1][0] == "closure" and y[1][1] == b.path for a in pt["args"][1:] for y in walk(pch.origin(a))):
                        continue
                    r = key_ok(parent, pch.origin(pt["args"][0]), depth + 1)
                    if r:
                        ok = "element of an iteration in the enclosing body: " + r
        # block created from the pool and awaited: (poll(..Block::create..) as Ready).0 ...
        if ok is None and any(y[0] == "call" and y[1] == "std::future::Future::poll" and
                              (b.term(y[3]).get("res") or "").startswith(CORE + "consensus::block::Block::create") for y in walk(key)):
            ok = "the key comes from the block built by draining the pool"
        if ok is None and depth < 3 and b.kind != "Closure":
            # a helper that releases the inputs of the transaction it is handed: judged at every call site
            params = sorted({y[1] for y in walk(key) if y[0] == "param"})
            if len(params) == 1 and not any(y[0] == "local" for y in walk(key)):
                k = params[0]
                reasons = []
                for cb in prog.all_bodies():
                    if "::tests::" in cb.path or "/test/" in cb.file or cb.path == b.path:
                        continue
                    cch = None
                    for cbb, ct in cb.calls():
                        if (ct.get("res") or ct.get("callee")) != b.path or k - 1 >= len(ct["args"]):
                            continue
                        cch = cch or Chaser(cb)
                        r = key_ok(cb, cch.origin(ct["args"][k - 1]), depth + 1)
                        reasons.append(r)
                if reasons and all(reasons):
                    ok = "helper parameter; at each of its %d call site(s): %s" % (len(reasons), reasons[0])
        return ok

    # R4: a reservation is released only for a transaction that left the pool
    for path, (b, sites) in sorted(map_sites.items()):
        name = path.split("::", 4)[-1]
        chb = Chaser(b)
        n = 0
        for s_ in sites:
            if s_[0] != "call" or s_[3] != "remove" or s_[2].rsplit("::", 1)[-1] not in ("remove", "remove_entry"):
                continue
            t = b.term(s_[1])
            if len(t["args"]) < 2:
                continue
            res.instance(R4)
            key = chb.origin(t["args"][1])
            ok = key_ok(b, key, 0)
            if ok:
                res.sample({"rule": R4, "site": b.loc(s_[1]), "body": name, "verdict": ok})
            else:
                res.add(Finding(R4, "C14.release-only-removed|%s|%d" % (path, n),
                                "%s releases an input reservation whose key (%s) does not come from a transaction that was removed from the pool: "
                                "a pooled transaction spending that output loses its reservation and a conflicting spender can enter the pool"
                                % (name, show(key)[:90]), b.loc(s_[1])))
            n += 1

    # R4b: a wholesale release (utxo_map.clear() / drain / retain without the removed element) is a release "for transactions that
    # left the pool" only where the whole pool has already left it: the site must be dominated, in its body, by a site that empties
    # Mempool.transactions (clear / drain / take, or the call that hands the whole map to Block::create)
    for path, (b, sites) in sorted(map_sites.items()):
        name = path.split("::", 4)[-1]
        for s_ in sites:
            if s_[0] != "call" or s_[3] != "remove" or s_[2].rsplit("::", 1)[-1] not in ("clear", "drain", "split_off", "truncate"):
                continue
            res.instance(R4)
            emptied = [x[1] for x in tx_sites.get(path, (b, []))[1]
                       if x[3] in ("remove", "replace", "unknown") and (x[0] == "assign" or x[2].rsplit("::", 1)[-1] in ("clear", "drain", "take", "replace", "create"))]
            if any(e != s_[1] and b.dominates(e, s_[1]) for e in emptied):
                res.sample({"rule": R4, "site": b.loc(s_[1]), "body": name, "verdict": "wholesale release after the whole pool was taken out"})
            else:
                res.add(Finding(R4, "C14.release-only-removed|%s|wholesale" % path,
                                "%s releases every input reservation (%s) at a point where the pooled transactions are still in the pool: if it returns before they "
                                "are removed, a conflicting spender of any pooled input is admitted" % (name, s_[2].rsplit("::", 1)[-1]), b.loc(s_[1])))

    # R5: the cached routing work follows the pool: after a removal the counter is reset-and-recomputed (a constant
    # assignment, in this body or in a callee on the way out) or decremented; after an insertion it is incremented or reset
    from ..callgraph import CallGraph
    cg5 = CallGraph(prog, [u for u in prog.units if u.crate == "saito_core"])

    def work_writes(b):
        """{bb: kind} for writes of Mempool.routing_work_in_mempool: reset / add / sub / other"""
        out = {}
        chb = None
        for bb, blk in enumerate(b.blocks):
            for st in blk["s"]:
                if st[0] == "=" and fa.has_field(b, st[1], MEMPOOL, "routing_work_in_mempool") is not None:
                    chb = chb or Chaser(b)
                    e = chb.rvalue(st[2], 0)
                    kind = "other"
                    if e[0] == "const" or not has_field(e, MEMPOOL, "routing_work_in_mempool"):
                        kind = "reset"      # assigned a value that does not depend on the old one: reset or recompute from scratch
                    for x in walk(e):
                        if x[0] == "bin" and x[1].startswith("Add"):
                            kind = "add"
                        elif x[0] == "bin" and x[1].startswith("Sub"):
                            kind = "sub"
                        elif x[0] in ("call", "via") and x[1].rsplit("::", 1)[-1] in ("saturating_sub", "checked_sub", "wrapping_sub"):
                            kind = "sub"
                        elif x[0] in ("call", "via") and x[1].rsplit("::", 1)[-1] in ("saturating_add", "checked_add", "wrapping_add"):
                            kind = "add"
                    out[bb] = kind
        return out
    resets = {p for p, b in cg5.bodies.items() if "reset" in work_writes(b).values()}

    def compensating_blocks(b, kinds):
        blocks = {bb for bb, k in work_writes(b).items() if k in kinds}
        if "reset" in kinds:
            for bb, t in b.calls():
                tgt = t.get("res") or t.get("callee")
                if tgt in cg5.bodies and cg5.reachable_from([tgt], kinds=("call", "await")) & resets:
                    blocks.add(bb)
        return blocks
    for path, (b, sites) in sorted(tx_sites.items()):
        name = path.split("::", 4)[-1]
        for s in sites:
            bb = s[1]
            if path in EXCEPTIONS:
                continue
            what = "::".join((s[2] if s[0] == "call" else "assignment").rsplit("::", 2)[-2:])
            for klass, kinds, verb in (("remove", ("reset", "sub"), "removes"), ("insert", ("reset", "add"), "inserts")):
                if not (s[3] == klass or (s[3] in ("replace", "unknown") and klass == "remove")):
                    continue
                res.instance(R5)
                ok_closure = False
                if s[0] == "call":
                    for cb in closure_args(b, bb, prog):
                        if any(k in kinds for k in work_writes(cb).values()):
                            ok_closure = True
                if ok_closure:
                    continue
                comp_exact = compensating_blocks(b, kinds)
                if any(c != bb and b.dominates(c, bb) for c in comp_exact):
                    # adjusted just before the mutation on every path that reaches it (e.g. `work += w; map.insert(..)`)
                    res.sample({"rule": R5, "site": b.loc(bb), "body": name, "verdict": "cached work adjusted right before the mutation"})
                    continue
                comp = loop_relaxed(b, comp_exact)
                t = b.term(bb)
                start = t.get("t") if t["k"] == "call" else bb
                ex = Explorer(b)
                found = ex.explore(start, blocked=comp - {bb}, accept=success_exit(b)) if start is not None else {}
                if found:
                    p = sorted(found.items())[0][1]
                    res.add(Finding(R5, "C14.cached-work|%s|%s|%s" % (path, klass, what),
                                    "%s %s pooled transactions (%s) and can finish without adjusting the cached routing work of the pool: "
                                    "the producer's estimate of available work no longer matches the pool" % (name, verb, what), b.loc(bb),
                                    {"path": describe_path(b, [bb] + p)}))
                else:
                    res.sample({"rule": R5, "site": b.loc(bb), "body": name, "verdict": "cached work adjusted on every success path"})

    # R6: the pool is re-validated against the ledger after every block addition: add_block_success reaches
    # remove_block_transactions on every returning path, and remove_block_transactions always runs the sweep
    # (a retain over Mempool.transactions whose closure asks Transaction::validate_against_utxoset)
    BCP = CORE + "consensus::blockchain::Blockchain::"
    rbt = prog.body(BCP + "remove_block_transactions")
    abs_ = prog.body(BCP + "add_block_success::{closure#0}")
    if rbt is None or abs_ is None:
        raise LookupError("remove_block_transactions / add_block_success not found")
    sweep_blocks = set()
    chr_ = Chaser(rbt)
    def asks_ledger(body, depth=0):
        for _, ct in body.calls():
            n_ = call_name(ct) or ""
            if n_.endswith("Transaction::validate_against_utxoset") or n_.endswith("Transaction::validate"):
                return True
            # the predicate may live in a private bool helper (`self.still_valid_for_next_block(tx, ..)`)
            hb_ = prog.bodies.get(ct.get("res") or ct.get("callee") or "")
            if depth < 1 and hb_ is not None and not hb_.is_promoted and hb_.path.startswith("saito_") and hb_.ty(0)["s"] == "bool" and asks_ledger(hb_, depth + 1):
                return True
        return False
    removes_pooled = any(x[3] in ("remove", "replace") for x in tx_sites.get(rbt.path, (rbt, []))[1])
    for bb, t in rbt.calls():
        last = (call_name(t) or "").rsplit("::", 1)[-1]
        if not t["args"] or not has_field(chr_.origin(t["args"][0]), MEMPOOL, "transactions"):
            continue
        if last in ("retain", "retain_mut", "extract_if"):
            if any(asks_ledger(cb) for cb in closure_args(rbt, bb, prog)):
                sweep_blocks.add(bb)
        elif last in ("filter", "partition", "filter_map", "for_each") and removes_pooled:
            # two-phase sweep: select the pooled transactions the ledger no longer supports, then remove them one by one
            if any(asks_ledger(cb) for cb in closure_args(rbt, bb, prog)):
                sweep_blocks.add(bb)
    if removes_pooled:
        for bb, t in rbt.calls():
            if ((call_name(t) or "").endswith("Transaction::validate_against_utxoset") or (call_name(t) or "").endswith("Transaction::validate")):
                h = rbt.innermost_loop_containing([bb])
                if h is not None:
                    sweep_blocks.add(h)
    res.instance(R6)
    if not sweep_blocks:
        res.add(Finding(R6, "C14.revalidate|no-sweep", "remove_block_transactions no longer re-validates the pooled transactions against the ledger", rbt.loc(0)))
    else:
        p = rbt.find_path(0, rbt.return_blocks(), blocked=sweep_blocks)
        if p:
            res.add(Finding(R6, "C14.revalidate|conditional-sweep", "remove_block_transactions can return without re-validating the pooled transactions against the ledger: "
                            "after a reorganisation a pooled transaction whose input was spent by another block of the new chain stays pooled", rbt.loc(p[-1]),
                            {"path": describe_path(rbt, p)}))
        else:
            res.sample({"rule": R6, "sweep": [rbt.loc(x) for x in sweep_blocks], "verdict": "every path of remove_block_transactions runs the sweep"})
    calls_rbt = {bb for bb, t in abs_.calls() if (t.get("res") or t.get("callee")) == rbt.path}
    res.instance(R6)
    if not calls_rbt:
        res.add(Finding(R6, "C14.revalidate|not-called", "add_block_success does not call remove_block_transactions", abs_.loc(0)))
    else:
        p = abs_.find_path(0, abs_.return_blocks(), blocked=calls_rbt)
        if p:
            res.add(Finding(R6, "C14.revalidate|skipped", "add_block_success can finish without re-validating the pool (remove_block_transactions is skipped on some path)", abs_.loc(p[-1]),
                            {"path": describe_path(abs_, p)}))
        else:
            res.sample({"rule": R6, "call": [abs_.loc(x) for x in calls_rbt], "verdict": "every returning path of add_block_success re-validates the pool"})

    # R3
    bpath = CORE + "consensus::mempool::Mempool::bundle_block::{closure#0}"
    bb_body = prog.body(bpath)
    if bb_body is None:
        raise LookupError("Mempool::bundle_block not found")
    drains = [s for s in tx_sites.get(bpath, (bb_body, []))[1] if s[3] in ("remove", "replace", "unknown")]
    if not drains:
        res.not_decided.append("bundle_block no longer drains Mempool.transactions through a callee; R3 has no instance")
    ch = Chaser(bb_body)
    for s in drains:
        res.instance(R3)
        reins = {x[1] for x in tx_sites[bpath][1] if x[3] in ("insert",) and x[1] != s[1]}
        start = bb_body.term(s[1]).get("t")
        # failure exits: `?` early returns (from_residual into _0) reachable after the drain without re-insertion
        reach = bb_body.reachable(start, blocked=loop_relaxed(bb_body, reins)) if start is not None else set()
        sources = {}
        for x in sorted(reach):
            t = bb_body.term(x)
            if t["k"] == "call" and (t.get("callee") or "").endswith("FromResidual::from_residual") and t["dest"][0] == 0:
                src = "?"
                cur, hops = x, 0
                while hops < 8:
                    preds = bb_body.pred(cur)
                    if len(preds) != 1:
                        break
                    cur = preds[0]
                    hops += 1
                    pt = bb_body.term(cur)
                    if pt["k"] == "switch":
                        cs = calls_in(ch.origin(pt["discr"]))
                        names = [c[1] for c in cs if c[1].startswith("saito_core")]
                        if names:
                            src = "::".join(names[0].split("::")[-2:])
                        break
                sources.setdefault(src, x)
        for src, x in sorted(sources.items()):
            if src in R3_EXCEPTIONS:
                res.sample({"rule": R3, "exit": bb_body.loc(x), "failing_call": src, "exception": R3_EXCEPTIONS[src]})
                continue
            res.add(Finding(R3, "C14.bundle-atomic|%s" % src,
                            "bundle_block drains the pool into the block being built and returns None when %s fails, without putting the transactions back" % src,
                            bb_body.loc(x)))
        if not sources:
            res.sample({"rule": R3, "drain": bb_body.loc(s[1]), "verdict": "no failure exit after the drain without re-insertion"})

    # R9: bundle_block runs on every timer tick, with or without pooled transactions. "Bundling either yields a valid block ... or leaves
    # the pool unchanged" leaves no room for an assertion: e.g. `assert!(now > tip.timestamp)` takes the node down (and keeps it down
    # across restarts) as soon as a peer's block stamped ahead of the local clock becomes the tip.
    res.instance(R9)
    asserts9 = [bb for bb, t in bb_body.calls() if any(k in ((call_name(t) or "") + " " + (t.get("res") or "")) for k in ("panicking::assert_failed", "core::panicking::panic ", "panicking::panic_fmt"))
                or (call_name(t) or "") in ("core::panicking::panic", "std::panicking::panic")]
    # panic_fmt is also what `unwrap`-free `expect`s lower to; keep to assertion shapes: a failure block whose only predecessor is a bool switch
    asserts9 = [bb for bb in asserts9 if any(bb_body.term(p_)["k"] == "switch" and bb_body.tyix(bb_body.term(p_)["dty"])["s"] == "bool" for p_ in _preds_chain(bb_body, bb))]
    if asserts9:
        res.add(Finding(R9, "C14.bundle-no-assert", "Mempool::bundle_block asserts on a run-time condition (%s): when it does not hold - e.g. the tip carries a timestamp ahead of the "
                        "local clock, which nothing refuses - every timer tick aborts the node instead of skipping the bundle" % bb_body.loc(asserts9[0]), bb_body.loc(asserts9[0])))
    else:
        res.sample({"rule": R9, "verdict": "no assertion in bundle_block"})
    # R10: the sweep must apply every ledger-relative test block validation applies to a transaction: the UTXO lookup and the
    # retention-window test (an input that leaves the window with the next block makes the transaction unbundlable for good)
    res.instance(R10)
    wtest_roots = set()
    for b_ in prog.all_bodies():
        if b_.is_promoted or "::tests::" in b_.path or not b_.path.startswith(CORE + "consensus::") or "consensus::wallet::" in b_.path:
            continue
        chw_ = None
        for blk in b_.blocks:
            for st in blk["s"]:
                if st[0] == "=" and st[2][0] == "bin" and st[2][1] in ("Lt", "Le", "Gt", "Ge"):
                    chw_ = chw_ or Chaser(b_)
                    if has_field(chw_.rvalue(st[2], 0), "slip::Slip", "block_id"):
                        from ._helpers import root as _r10
                        wtest_roots.add(_r10(b_.path))
    sweep_bodies = [rbt] + [b_ for p_, b_ in prog.bodies.items() if p_.startswith(rbt.path + "::{closure") and not b_.is_promoted]
    from ._helpers import root as _r10
    def _calls_window(b_, depth=0):
        for _, t_ in b_.calls():
            tgt_ = t_.get("res") or t_.get("callee") or ""
            if _r10(tgt_) in wtest_roots:
                return True
            hb_ = prog.bodies.get(tgt_)
            if depth < 1 and hb_ is not None and not hb_.is_promoted and tgt_.startswith("saito_") and hb_.ty(0)["s"] == "bool" and _calls_window(hb_, depth + 1):
                return True
        return False
    has_window = any(_calls_window(b_) for b_ in sweep_bodies)
    if not wtest_roots:
        res.not_decided.append("C14.sweep-window: no retention-window test exists in the consensus code (see C01.input-window)")
    elif not has_window:
        res.add(Finding(R10, "C14.sweep-window", "remove_block_transactions re-checks pooled transactions against the UTXO set only: a pooled transaction whose input leaves the retention "
                        "window stays pooled although no block can carry it any more (it then collides with the rebroadcast of the same output or invalidates the node's own block)", rbt.loc(0)))
    else:
        res.sample({"rule": R10, "verdict": "the sweep applies the retention-window test as well"})

    # R7: "bundling yields a valid block or leaves the pool unchanged": the drained transactions travel in the block; when the
    # node refuses that block, add_block_failure must hand them back (add_block_transactions_back -> insertion point, which drops
    # only those that really conflict). The only exit that may skip it is "the block is not in Blockchain.blocks".
    from ..expr import has_call as _hc7
    abf = prog.body(CORE + "consensus::blockchain::Blockchain::add_block_failure::{closure#0}")
    if abf is None:
        raise LookupError("Blockchain::add_block_failure not found")
    ch7 = Chaser(abf)
    back = {bb for bb, t in abf.calls() if ((t.get("res") or t.get("callee") or "").replace("::{closure#0}", "")).endswith("Blockchain::add_block_transactions_back")}
    res.instance(R7)
    if not back:
        res.add(Finding(R7, "C14.refused-block-restored|not-called", "add_block_failure no longer calls add_block_transactions_back: the transactions bundled into a refused block are lost", abf.loc(0)))
    else:
        def taken_block(e):
            return any(x[0] in ("call", "via") and x[1].rsplit("::", 1)[-1] in ("remove", "remove_entry", "get", "get_mut") for x in walk(e)) and has_field(e, "blockchain::Blockchain", "blocks")
        missing = set()
        isn = gate.bool_switch_edges(abf, ch7, lambda e: e[0] == "call" and e[1].rsplit("::", 1)[-1] == "is_none" and "Option" in e[1] and taken_block(e))
        iss = gate.bool_switch_edges(abf, ch7, lambda e: e[0] == "call" and e[1].rsplit("::", 1)[-1] == "is_some" and "Option" in e[1] and taken_block(e))
        missing |= isn["true"] | iss["false"]
        for bb, blk in enumerate(abf.blocks):
            t = blk["t"]
            if t["k"] == "switch":
                e = ch7.origin(t["discr"])
                if e[0] == "discr" and taken_block(e[1]):
                    missing |= gate.variant_edges(abf, bb, 0)
        f7 = Explorer(abf).explore(0, deleted_edges=missing, blocked=back, accept=lambda bb, env: "return" if abf.term(bb)["k"] == "return" else None)
        if f7:
            kind, path = sorted(f7.items())[0]
            res.add(Finding(R7, "C14.refused-block-restored|skipped", "add_block_failure can finish without add_block_transactions_back although it holds the refused block: every "
                            "transaction that was bundled into it is lost, not only those that conflict with the pool", abf.loc(path[-1]), {"path": describe_path(abf, path)}))
        else:
            res.sample({"rule": R7, "call": [abf.loc(x) for x in sorted(back)], "exempt_edges": len(missing), "verdict": "skipped only when the block is not stored"})

    # R8: Transaction::validate serves block validation too and lets Fee / ATR / Issuance through without sender or signature (the
    # block compares them with what it must contain). The pool admits on validate's word, so its admission point itself must keep
    # those types out: a peer's Fee-typed message otherwise sits in the pool, is drained into the next bundled block and gets that
    # block refused ("bundling yields a valid block"). Decided per type with the branch conditions evaluated for that type.
    aiv = prog.body(CORE + "consensus::mempool::Mempool::add_transaction_if_validates::{closure#0}")
    if aiv is None:
        raise LookupError("Mempool::add_transaction_if_validates not found")
    ch8 = Chaser(aiv)
    ins8 = {bb for bb, t in aiv.calls() if ((t.get("res") or t.get("callee") or "").replace("::{closure#0}", "")).endswith("Mempool::add_transaction")}
    def chain_is_empty(e):
        return e[0] == "call" and e[1].rsplit("::", 1)[-1] == "is_empty" and (has_field(e, "blockchain::Blockchain", "blocks") or has_field(e, "blockchain::Blockchain", "blockring"))
    ins_accept = lambda bb, env: "insert" if bb in ins8 else None
    for v8 in ("Fee", "ATR", "SPV", "Issuance"):
        res.instance(R8)
        known8 = {}
        # Issuance: the genesis issuance of this node is pooled while the chain is still empty - judge the type with "the chain has blocks"
        assume8 = [(chain_is_empty, False)] if v8 == "Issuance" else []
        dead8 = gate.edges_not_taken_when(prog, aiv, ch8, "transaction::TransactionType", "transaction_type", v8, assume=assume8, known=known8)
        hit8 = Explorer(aiv, fixed_locals=dict(known8)).explore(0, deleted_edges=dead8, accept=ins_accept) if ins8 else {}
        hit8 = sorted(p_[-1] for p_ in hit8.values()) if hit8 else []
        if not ins8:
            res.add(Finding(R8, "C14.pool-types|anchors", "add_transaction_if_validates no longer calls Mempool::add_transaction (anchor moved?)", aiv.loc(0)))
            break
        if hit8:
            res.add(Finding(R8, "C14.pool-types|%s" % v8, "Mempool::add_transaction_if_validates can insert a transaction of type %s%s: Transaction::validate asks that type for no sender or signature, "
                            "so any peer can have one pooled; the next bundled block carries it and is refused by the node's own Block::validate"
                            % (v8, " although the chain already has blocks" if v8 == "Issuance" else ""), aiv.loc(hit8[0])))
        else:
            res.sample({"rule": R8, "type": v8, "verdict": "insertion unreachable for this type"})

    # "the pool holds only transactions that are valid against the ledger": nothing enters it around Transaction::validate
    from ._include import include
    include(res, prog, tier, extra, "c01", ["C01.utxo-lookup"],
            "the sweep after every block addition keeps a pooled transaction on validate_against_utxoset's word: it must look every input up for every pooled type")
    include(res, prog, tier, extra, "c01", ["C01.who-may-insert"],
            "every path into Mempool.transactions goes through Transaction::validate (also the re-adding of a refused own block's transactions)")
    res.explanation = (
        "Decides that the pool and its reservation index move together: each site removing pooled transactions releases their inputs in utxo_map on every success path "
        "(a loop over the removed transactions counts from its header; a retain-style closure may release inside), each inserting site reserves them, and bundle_block has no "
        "failure exit between draining the pool and returning. Necessary for 'an unspent output that no pooled transaction spends can always be spent' and for the bundling "
        "clause. It does not decide pool/ledger consistency over interleavings.")
    res.assumptions = ["EXCEPTIONS table in analysis/rules/c14.py (bundle_genesis_block)"]
    return res
