"""C09 (clause) - writer/reader layout agreement of the hand-written codecs.

For each codec pair on one type the writer table (ordered segments (source field, width) read off the
`[..].concat()` aggregate) and the reader table (constant ranges `bytes[a..b]` / indices `bytes[k]` chased to the field
they initialise) must give every fixed-layout field the same [offset, offset+width).  Size constants equal the writer's
fixed prefix; Message tags are injective and each tag's decode arm constructs the variant that carries that tag.
Decides layout agreement only - not value equality of variable parts, hashes or signatures.
"""
from ..expr import Chaser, call_name, show, strip, walk
from ..report import Finding, Result

CORE = "saito_core::core::"
INT = {"u8": 1, "i8": 1, "bool": 1, "u16": 2, "i16": 2, "u32": 4, "i32": 4, "u64": 8, "i64": 8, "u128": 16, "i128": 16}

# (label, type ADT suffix, writer body, reader body, size constant or None)
PAIRS = [
    ("Slip", "slip::Slip", "consensus::slip::Slip::serialize_for_net", "consensus::slip::Slip::deserialize_from_net", "SLIP_SIZE"),
    ("Hop", "hop::Hop", "consensus::hop::Hop::serialize_for_net", "consensus::hop::Hop::deserialize_from_net", "HOP_SIZE"),
    ("Transaction", "transaction::Transaction", "consensus::transaction::Transaction::serialize_for_net_with_hop",
     "consensus::transaction::Transaction::deserialize_from_net", "TRANSACTION_SIZE"),
    ("Block", "block::Block", "consensus::block::Block::serialize_for_net", "consensus::block::Block::deserialize_from_net", "BLOCK_HEADER_SIZE"),
    ("GoldenTicket", "golden_ticket::GoldenTicket", "consensus::golden_ticket::GoldenTicket::serialize_for_net",
     "consensus::golden_ticket::GoldenTicket::deserialize_from_net", None),
    ("HandshakeChallenge", "handshake::HandshakeChallenge", "msg::handshake::HandshakeChallenge::serialize", "msg::handshake::HandshakeChallenge::deserialize", None),
    ("HandshakeResponse", "handshake::HandshakeResponse", "msg::handshake::HandshakeResponse::serialize", "msg::handshake::HandshakeResponse::deserialize", None),
    ("BlockchainRequest", "block_request::BlockchainRequest", "msg::block_request::BlockchainRequest::serialize", "msg::block_request::BlockchainRequest::deserialize", None),
    ("ApiMessage", "api_message::ApiMessage", "msg::api_message::ApiMessage::serialize", "msg::api_message::ApiMessage::deserialize", None),
    ("Version", "version::Version", "process::version::Version::serialize", "process::version::Version::deserialize", None),
    ("Wallet(disk)", "wallet::Wallet", "consensus::wallet::Wallet::serialize_for_disk", "consensus::wallet::Wallet::deserialize_from_disk", None),
]


def _places_read(rv):
    k = rv[0]
    ops = []
    if k == "use":
        ops = [rv[1]]
    elif k in ("ref", "raw", "discr", "len"):
        yield rv[2] if k in ("ref", "raw") else rv[1]
        return
    elif k == "bin":
        ops = [rv[2], rv[3]]
    elif k in ("un", "cast"):
        ops = [rv[2]]
    elif k == "agg":
        ops = list(rv[2])
    for o in ops:
        if isinstance(o, list) and o and o[0] in ("cp", "mv"):
            yield o[1]


_FR_MEMO = {}


def _fields_read_of_param(callee, param, adt_suffix):
    """names of the fields of `adt` that callee reads through its parameter `param` (a reference to the value)"""
    key = (callee.path, param)
    if key in _FR_MEMO:
        return _FR_MEMO[key]
    out = set()
    aliases = {param}
    for blk in callee.blocks:
        for st in blk["s"]:
            if st[0] == "=" and not st[1][1] and st[2][0] in ("use", "ref") :
                src = st[2][1][1] if st[2][0] == "use" and st[2][1][0] in ("cp", "mv") else (st[2][2] if st[2][0] == "ref" else None)
                if src and src[0] in aliases and all(pr == "*" for pr in src[1]):
                    aliases.add(st[1][0])
    for blk in callee.blocks:
        for st in blk["s"]:
            if st[0] != "=":
                continue
            for pl in _places_read(st[2]):
                if pl[0] in aliases:
                    for pr in pl[1]:
                        if isinstance(pr, list) and pr[0] == "f" and pr[2].endswith(adt_suffix):
                            out.add(pr[3])
                            break
    _FR_MEMO[key] = out
    return out


def find_body(prog, suffix):
    b = prog.body(CORE + suffix)
    if b is None:
        ty, fn = suffix.rsplit("::", 1)
        c = [x for x in prog.all_bodies() if x.path.startswith("<%s%s as " % (CORE, ty)) and x.path.endswith(">::" + fn)]
        b = c[0] if len(c) == 1 else None
    if b is None:
        raise LookupError("codec body %s not found" % suffix)
    return b


def recv_local(body, op, depth=0):
    """the local a `&mut x` receiver operand ultimately points at (through reborrows / deref_mut temporaries)"""
    if op[0] not in ("cp", "mv") or depth > 8:
        return None
    l, projs = op[1]
    if any(isinstance(p, list) for p in projs):
        return None
    defs = body.defs(l)
    if len(defs) == 1 and defs[0][0] == "stmt":
        rv = defs[0][3]
        if rv[0] in ("ref", "raw"):
            if any(isinstance(p, list) for p in rv[2][1]):
                return None
            inner = rv[2][0]
            d2 = body.defs(inner)
            if len(d2) == 1 and d2[0][0] == "stmt" and d2[0][3][0] in ("ref", "use") and body.ty(inner)["k"] in ("ref", "refmut"):
                return recv_local(body, ["cp", [inner, []]], depth + 1)
            return inner
        if rv[0] == "use" and rv[1][0] in ("cp", "mv") and body.ty(l)["k"] in ("ref", "refmut"):
            return recv_local(body, rv[1], depth + 1)
    if len(defs) == 1 and defs[0][0] == "call" and (call_name(defs[0][2]) or "").rsplit("::", 1)[-1] in ("deref_mut", "as_mut", "borrow_mut"):
        return recv_local(body, defs[0][2]["args"][0], depth + 1)
    return l if body.ty(l)["k"] not in ("ref", "refmut") else None


def array_n(body, ty):
    t = ty
    while t["k"] in ("ref", "refmut"):
        t = body.tyix(t["i"])
    if t["k"] == "array" and t.get("n") is not None and body.tyix(t["i"])["s"] == "u8":
        return t["n"]
    return None


class Codec:
    def __init__(self, prog):
        self.prog = prog
        self._writer_memo = {}
        self._seq_memo = {}

    # ---------------- writer
    def field_type_width(self, adt_path, field):
        for u in self.prog.units:
            adt = u.adts.get(adt_path)
            if adt:
                for f in adt["variants"][0]["fields"]:
                    if f["name"] == field:
                        ty = u.types[f["ty"]]
                        if ty["k"] == "array" and ty.get("n") is not None:
                            return ty["n"]
                        return None
        return None

    def width_of(self, body, e, depth=0):
        """byte width of a writer segment expression, or None when it is variable"""
        if depth > 12:
            return None
        k = e[0]
        if k in ("via", "call"):
            bb = e[3] if len(e) > 3 else None
            if isinstance(bb, int):
                t = body.term(bb)
                if t["k"] == "call" and not t["dest"][1]:
                    n = array_n(body, body.ty(t["dest"][0]))
                    if n is not None:
                        return n
                    if body.ty(t["dest"][0])["s"] == "std::vec::Vec<u8>":
                        segs = self.seq_segments(body, t["dest"][0])
                        if segs and len(segs) > 0 and all(w is not None for _, w in segs) and self._is_seq_built(body, t["dest"][0]):
                            return sum(w for _, w in segs)
            if k == "via":
                return self.width_of(body, e[2], depth + 1)
            name = e[1]
            if isinstance(bb, int) and body.term(bb)["k"] == "call" and body.term(bb).get("res"):
                name = body.term(bb)["res"]
            # nested writer of another type (e.g. Version::serialize) with an all-fixed layout
            tgt = self.prog.bodies.get(name) or next((b for p, b in self.prog.bodies.items() if p.endswith(">::" + name.rsplit("::", 1)[-1]) and name.rsplit("::", 2)[-2] in p and not b.is_promoted), None)
            if tgt is not None and tgt.path != body.path:
                segs = self.writer_table(tgt)
                if segs and all(w is not None for _, w in segs):
                    return sum(w for _, w in segs)
            if name.rsplit("::", 1)[-1] in ("to_vec", "as_slice", "clone", "to_owned") and e[2]:
                return self.width_of(body, e[2][0], depth + 1)
            return None
        if k == "field":
            w = self.field_type_width(e[2], e[3])
            return w
        if k in ("ref", "deref", "cast"):
            return self.width_of(body, e[1], depth + 1)
        if k == "local":
            segs = self.seq_segments(body, e[1])
            if segs and all(w is not None for _, w in segs):
                return sum(w for _, w in segs)
            return None
        if k == "agg" and e[1][0] == "array":
            ws = [self.elem_width(body, x) for x in e[2]]
            return sum(ws) if all(w is not None for w in ws) else None
        return None

    def _is_seq_built(self, body, local):
        d = body.defs(local)
        return len(d) == 1 and d[0][0] == "call" and (call_name(d[0][2]) or "") in ("std::vec::Vec::new", "std::vec::Vec::with_capacity", "std::default::Default::default")

    def elem_width(self, body, e):
        """width of one element of a `[a, b]` byte array literal"""
        x = e
        while x[0] in ("ref", "deref", "cast", "via"):
            x = x[2] if x[0] == "via" else x[1]
        if x[0] == "field":
            for u in self.prog.units:
                adt = u.adts.get(x[2])
                if adt:
                    for f in adt["variants"][0]["fields"]:
                        if f["name"] == x[3]:
                            return INT.get(u.types[f["ty"]]["s"])
        if x[0] == "const":
            return 1
        return None

    def seq_segments(self, body, local):
        """segments of a Vec<u8> local built as `vec![]` / `x.to_vec()` followed by extend/append/push calls"""
        key = (body.path, local)
        if key in self._seq_memo:
            return self._seq_memo[key]
        self._seq_memo[key] = None
        ch = Chaser(body)
        if body.ty(local)["s"] != "std::vec::Vec<u8>":
            return None
        segs = []
        defs = body.defs(local)
        init = [d for d in defs if d[0] in ("call", "stmt")]
        if len(init) != 1:
            return None
        d = init[0]
        if d[0] == "call":
            n = call_name(d[2]) or ""
            if n in ("std::vec::Vec::new", "std::vec::Vec::with_capacity", "std::default::Default::default"):
                pass
            elif n in ("std::slice::to_vec", "std::slice::into_vec", "std::vec::from_elem") or n.endswith("::to_vec"):
                e0 = ch.origin(d[2]["args"][0])
                agg = next((x for x in walk(e0) if x[0] == "agg" and x[1][0] == "array"), None)
                if agg is not None:
                    segs += [(self.source_field(x), self.elem_width(body, x)) for x in agg[2]]
                else:
                    segs.append((self.source_field(e0), self.width_of(body, e0)))
            else:
                return None
        else:
            return None
        # mutation sites in CFG order
        sites = []
        for bb, t in body.calls():
            n = call_name(t) or ""
            last = n.rsplit("::", 1)[-1]
            if last not in ("extend", "append", "extend_from_slice", "push") or not t["args"]:
                continue
            if recv_local(body, t["args"][0]) != local:
                continue
            arg = ch.origin(t["args"][1]) if len(t["args"]) > 1 else None
            w = 1 if last == "push" else (self.width_of(body, arg) if arg is not None else None)
            sites.append((bb, self.source_field(arg) if arg is not None else None, w))
        order = {b: i for i, b in enumerate(body.rpo())}
        sites.sort(key=lambda s: order.get(s[0], 1 << 30))
        i = 0
        while i < len(sites):
            bb, f, w = sites[i]
            # mutually exclusive alternatives (neither dominates the other): must agree on the width
            j = i + 1
            alts = [(bb, f, w)]
            while j < len(sites) and not body.dominates(bb, sites[j][0]) and not body.dominates(sites[j][0], bb):
                alts.append(sites[j])
                j += 1
            if len(alts) > 1:
                ws = {a[2] for a in alts}
                fs = {a[1] for a in alts}
                segs.append((fs.pop() if len(fs) == 1 else None, ws.pop() if len(ws) == 1 else None))
            else:
                segs.append((f, w))
            i = j
        self._seq_memo[key] = segs
        return segs

    def source_field(self, e):
        """outermost field of the value being written (`self.amount`, `self.from.len()` -> 'from.len')"""
        names = []
        is_len = False
        x = e
        hops = 0
        while hops < 30:
            hops += 1
            if x[0] == "via":
                x = x[2]
            elif x[0] in ("ref", "deref", "cast"):
                x = x[1]
            elif x[0] == "len":
                is_len = True
                x = x[1]
            elif x[0] == "call" and x[2]:
                x = x[2][0]
            elif x[0] == "field":
                names.append(x[3])
                x = x[1]
            elif x[0] == "downcast":
                x = x[1]
            else:
                break
        if not names:
            return None
        p = ".".join(reversed(names))
        return p + ".len" if is_len else p

    def writer_table(self, body):
        """ordered [(field or None, width or None)] of the first `[..].concat()` that builds the result"""
        if body.path in self._writer_memo:
            return self._writer_memo[body.path]
        self._writer_memo[body.path] = []
        ch = Chaser(body)
        best = []
        for bb, t in body.calls():
            n = call_name(t) or ""
            if n not in ("std::slice::concat", "std::slice::Concat::concat", "std::slice::Join::join"):
                continue
            e = ch.origin(t["args"][0])
            agg = None
            for x in walk(e):
                if x[0] == "agg" and x[1][0] == "array":
                    agg = x
                    break
            if agg is None:
                continue
            segs = [(self.source_field(el), self.width_of(body, el)) for el in agg[2]]
            if len(segs) > len(best):
                best = segs
        if not best:
            # `let mut v = ..; v.extend(..); v` style
            for blk in body.blocks:
                for st in blk["s"]:
                    if st[0] == "=" and st[1] == [0, []] and st[2][0] == "use" and st[2][1][0] in ("mv", "cp") and not st[2][1][1][1]:
                        segs = self.seq_segments(body, st[2][1][1][0])
                        if segs and len(segs) > len(best):
                            best = segs
        self._writer_memo[body.path] = best
        return best

    # ---------------- reader
    def reader_table(self, body, adt_suffix):
        """{field: (offset, width)} for fields initialised from a constant range / index of the input"""
        ch = Chaser(body)
        out = {}
        multi = {}

        def ranges_in(e):
            found = []
            for x in walk(e):
                if x[0] == "call" and x[1] in ("std::ops::Index::index",) and len(x[2]) == 2:
                    base, idx = strip(x[2][0]), x[2][1]
                    while idx[0] in ("ref", "deref"):
                        idx = idx[1]
                    if base[0] != "param":
                        continue
                    if idx[0] == "agg" and idx[1][0] == "adt":
                        nm = idx[1][1]
                        vals = [o[1] if o[0] == "const" else None for o in idx[2]]
                        if nm.endswith("ops::Range") and len(vals) == 2 and None not in vals:
                            found.append((vals[0], vals[1] - vals[0]))
                        elif nm.endswith("ops::RangeTo") and len(vals) == 1 and vals[0] is not None:
                            found.append((0, vals[0]))
                        else:
                            found.append(None)
                    elif idx[0] == "const" and isinstance(idx[1], int):
                        found.append((idx[1], 1))
                    else:
                        found.append(None)
                elif x[0] == "call" and x[1] in ("std::slice::get", "std::vec::Vec::get") and len(x[2]) == 2:
                    base, idx = strip(x[2][0]), x[2][1]
                    if base[0] == "param":
                        found.append((idx[1], 1) if idx[0] == "const" and isinstance(idx[1], int) else None)
                elif x[0] in ("index", "cindex"):
                    base = strip(x[1])
                    if base[0] != "param":
                        continue
                    if x[0] == "cindex":
                        found.append((x[2], 1))
                    elif x[2][0] == "const" and isinstance(x[2][1], int):
                        found.append((x[2][1], 1))
                    else:
                        found.append(None)
            return found

        def note(field, e):
            rs = ranges_in(e)
            if len(rs) == 1 and rs[0] is not None:
                if field in out and out[field] != rs[0]:
                    multi.setdefault(field, {out[field]}).add(rs[0])
                out[field] = rs[0]
        for blk in body.blocks:
            for st in blk["s"]:
                if st[0] != "=":
                    continue
                pl = st[1]
                fs = [pr for pr in pl[1] if isinstance(pr, list) and pr[0] == "f"]
                if fs and fs[-1][2].endswith(adt_suffix) and pl[1] and isinstance(pl[1][-1], list) and pl[1][-1][0] == "f":
                    note(fs[-1][3], ch.rvalue(st[2], 0))
                elif st[2][0] == "agg" and st[2][1][0] == "adt" and st[2][1][1].endswith(adt_suffix):
                    names = st[2][1][4]
                    for i, op in enumerate(st[2][2]):
                        if i < len(names):
                            note(names[i], ch.origin(op))
            t = blk["t"]
            if t["k"] == "call":
                pl = t["dest"]
                fs = [pr for pr in pl[1] if isinstance(pr, list) and pr[0] == "f"]
                if fs and fs[-1][2].endswith(adt_suffix):
                    note(fs[-1][3], ch.call(t, 0, 0))
                # constructor taking decoded pieces positionally: `GoldenTicket::new(target, random, public_key)`
                tgt = self.prog.bodies.get(t.get("res") or t.get("callee") or "")
                if tgt is not None and tgt.ty(0)["s"].endswith(adt_suffix) and not tgt.is_promoted:
                    for blk2 in tgt.blocks:
                        for st2 in blk2["s"]:
                            if st2[0] == "=" and st2[2][0] == "agg" and st2[2][1][0] == "adt" and st2[2][1][1].endswith(adt_suffix):
                                names = st2[2][1][4]
                                cht = Chaser(tgt)
                                for i, op in enumerate(st2[2][2]):
                                    po = strip(cht.origin(op))
                                    if po[0] == "param" and 1 <= po[1] <= len(t["args"]) and i < len(names):
                                        note(names[i], ch.origin(t["args"][po[1] - 1]))
        return out, multi


def run(prog, tier, extra=None):
    res = Result("C09", "other")
    R1 = res.rule("C09.layout", "every fixed-layout field is written and read at the same [offset, offset+width)", floor=55)
    R2 = res.rule("C09.size-const", "declared size constants equal the writer's fixed prefix", floor=4)
    R4 = res.rule("C09.size-predictor", "Transaction::get_serialized_size is the same linear form as the writer's length", floor=1)
    R5 = res.rule("C09.container-domain", "the block decoder adds no value-domain restriction of its own on carried transactions", floor=1)
    R6 = res.rule("C09.count-limits", "the reader accepts every slip count the writer encodes", floor=2)
    R8 = res.rule("C09.no-field-skipped", "a decoder returns Ok only after each optional/trailing field was decoded or its own presence test said there is nothing to read", floor=1)
    R9 = res.rule("C09.read-before-decode", "a decoder's decisions do not read a field of the value under construction before that field was assigned from the input", floor=0)
    R7 = res.rule("C09.inline-variants", "Message variants encoded inline (tuple fields concatenated in the match arm) are read back at the offsets they are written", floor=4)
    R10 = res.rule("C09.dispatch-guards", "a length guard in a Message::deserialize arm does not refuse the shortest encoding the payload's writer produces", floor=5)
    R3 = res.rule("C09.tags", "Message tags are injective and each decode arm constructs the variant carrying that tag", floor=28)
    cd = Codec(prog)
    summary = {}
    for label, adt, wsuf, rsuf, const in PAIRS:
        try:
            w = find_body(prog, wsuf)
            r = find_body(prog, rsuf)
        except LookupError:
            if label in ("Wallet(disk)",):
                res.not_decided.append("%s: codec pair not found" % label)
                continue
            raise
        segs = cd.writer_table(w)
        reader, multi = cd.reader_table(r, adt)
        if not segs:
            res.not_decided.append("%s: writer is not a `[..].concat()` aggregate" % label)
            continue
        off = 0
        fixed = []
        for f, wd in segs:
            if wd is None:
                break
            fixed.append((f, off, wd))
            off += wd
        prefix = off
        all_fixed = len(fixed) == len(segs)
        summary[label] = {"writer_segments": len(segs), "fixed_prefix_bytes": prefix, "all_fixed": all_fixed, "reader_fields": len(reader)}
        wmap = {}
        for f, o, wd in fixed:
            if f is not None:
                wmap.setdefault(f, []).append((o, wd))
        for f, o, wd in fixed:
            if f is None or f.endswith(".len"):
                continue
            key_f = f.split(".")[-1]
            res.instance(R1)
            if key_f in reader:
                ro, rw = reader[key_f]
                if (ro, rw) not in wmap.get(f, []):
                    res.add(Finding(R1, "C09.layout|%s|%s" % (label, key_f),
                                    "%s.%s is written at bytes [%d, %d) but read from [%d, %d)" % (label, key_f, o, o + wd, ro, ro + rw), r.loc(0),
                                    {"writer": w.path.replace(CORE, ""), "reader": r.path.replace(CORE, "")}))
                else:
                    res.sample({"codec": label, "field": key_f, "offset": ro, "width": rw, "verdict": "same range on both sides"})
        # reader fields that the writer puts elsewhere or not in the fixed prefix
        for f, (ro, rw) in sorted(reader.items()):
            hits = [x for x in fixed if x[0] is not None and x[0].split(".")[-1] == f]
            if not hits:
                # read from a constant range that the writer does not fill with this field
                owner = [x for x in fixed if x[1] == ro and x[2] == rw]
                if owner and owner[0][0] is not None and not owner[0][0].endswith(".len"):
                    res.instance(R1)
                    res.add(Finding(R1, "C09.layout|%s|%s|foreign" % (label, f),
                                    "%s.%s is read from bytes [%d, %d), which the writer fills with %s" % (label, f, ro, ro + rw, owner[0][0]), r.loc(0)))
        for f, vals in multi.items():
            res.not_decided.append("%s.%s is read from several ranges %s" % (label, f, sorted(vals)))
        if const:
            v = prog.const(const)
            res.instance(R2)
            if v is None:
                res.add(Finding(R2, "C09.size-const|%s|missing" % const, "size constant %s not found" % const, w.loc(0)))
            elif v != prefix:
                res.add(Finding(R2, "C09.size-const|%s" % const, "%s = %d but the writer's fixed-layout prefix is %d bytes" % (const, v, prefix), w.loc(0)))
            else:
                res.sample({"codec": label, "constant": const, "value": v, "verdict": "equals the writer's fixed prefix"})
    res.extra["codecs"] = summary

    # R4: the size predictor is the same linear form as the writer's length
    from ..linear import Lin, Linearizer
    gs = prog.body(CORE + "consensus::transaction::Transaction::get_serialized_size")
    tw = find_body(prog, "consensus::transaction::Transaction::serialize_for_net_with_hop")
    if gs is not None:
        res.instance(R4)
        chg = Chaser(gs)
        lzg = Linearizer(gs, chg)
        predicted = None
        for blk in gs.blocks:
            for st in blk["s"]:
                if st[0] == "=" and st[1] == [0, []]:
                    predicted = lzg.lin(chg.rvalue(st[2], 0))
        # expected from the writer table
        chw = Chaser(tw)
        expected = {}
        const = 0
        ok = True
        segs_expr = None
        for bb, t in tw.calls():
            if (call_name(t) or "") == "std::slice::concat":
                e = chw.origin(t["args"][0])
                for x in walk(e):
                    if x[0] == "agg" and x[1][0] == "array" and (segs_expr is None or len(x[2]) > len(segs_expr)):
                        segs_expr = x[2]
        for el in segs_expr or []:
            w = cd.width_of(tw, el)
            if w is not None:
                const += w
                continue
            # variable part: `self.F` written raw, or the concatenation of per-element writers over `self.F`
            src = cd.source_field(el)
            inner = None
            for x in walk(el):
                if x[0] == "agg" and x[1][0] == "closure":
                    cb = prog.bodies.get(x[1][1])
                    if cb is not None:
                        for _, ct in cb.calls():
                            tgt = prog.bodies.get(ct.get("res") or "")
                            if tgt is not None and "serialize_for_net" in tgt.path:
                                ws = cd.writer_table(tgt)
                                if ws and all(v is not None for _, v in ws):
                                    inner = sum(v for _, v in ws)
            if src is None:
                ok = False
                continue
            expected[src.split(".")[0] if inner else src] = inner or 1
        if predicted is None or not ok:
            res.not_decided.append("Transaction::get_serialized_size: predictor or writer does not normalise")
        else:
            got = {k[1][2].split("#")[0].replace("self.", ""): int(v) for k, v in predicted.t.items() if k[0] == "len"}
            exp = dict(expected)
            if int(predicted.c) != const or got != exp:
                res.add(Finding(R4, "C09.size-predictor|Transaction", "Transaction::get_serialized_size predicts %d + %s but serialize_for_net writes %d + %s"
                                % (int(predicted.c), got, const, exp), gs.loc(0)))
            else:
                res.sample({"rule": R4, "predicted": "%d + %s" % (int(predicted.c), got), "written": "%d + %s" % (const, exp), "verdict": "same linear form"})

    # R5: a container decoder adds no value-domain restriction of its own on the records it carries: Block::deserialize_from_net
    # only slices transactions out of the buffer; every constant threshold on a decoded count belongs to Transaction's own codec
    # (its writer refuses > 255 inputs / outputs, its reader rejects the same), so a block that encodes must decode
    from .. import gate as _gate
    bd = find_body(prog, "consensus::block::Block::deserialize_from_net")
    td = find_body(prog, "consensus::transaction::Transaction::deserialize_from_net")

    def thresholds(body):
        """[(bb-loc, op, const, 'show')] comparisons between a constant and a value that is decoded from the input
        (or a closure parameter) and does not involve the buffer length"""
        out = []
        bodies = [body] + [x for x in prog.all_bodies() if x.path.startswith(body.path + "::{closure")]
        for b in bodies:
            chb = Chaser(b)
            exprs = []
            for bb, blk in enumerate(b.blocks):
                t = blk["t"]
                if t["k"] == "switch":
                    exprs.append((bb, chb.origin(t["discr"])))
                for st in blk["s"]:
                    if st[0] == "=" and st[1] == [0, []]:
                        exprs.append((bb, chb.rvalue(st[2], 0)))
            for bb, e in exprs:
                e, _ = _gate.unwrap_not(e)
                if e[0] == "bin" and e[1] in ("Lt", "Le", "Gt", "Ge"):
                    a, c = e[2], e[3]
                elif e[0] == "call" and e[1].startswith("std::cmp::PartialOrd::") and len(e[2]) == 2:
                    a, c = e[2]
                else:
                    continue
                for x, k in ((a, c), (c, a)):
                    ks = strip(k)
                    if ks[0] != "const" or not isinstance(ks[1], int):
                        continue
                    if any(y[0] == "len" for y in walk(x)):
                        continue
                    decoded = any(y[0] == "via" and y[1] in ("std::num::from_be_bytes", "std::num::from_le_bytes") for y in walk(x)) or \
                        (b is not body and any(y[0] == "param" and y[1] >= 2 for y in walk(x)))
                    if decoded:
                        out.append((b.loc(bb), e[1] if e[0] == "bin" else e[1].rsplit("::", 1)[-1], ks[1], show(x)[:60]))
        return out
    own = thresholds(bd)
    res.instance(R5)
    nested = {(c) for (_, _, c, _) in thresholds(td)}
    for (loc, op, c, what) in own:
        res.add(Finding(R5, "C09.container-domain|Block|%s|%d" % (op, c),
                        "Block::deserialize_from_net rejects on a threshold of its own (%s %s %d) on a value decoded from the carried transaction's header: "
                        "a transaction that Transaction's codec accepts can make an encodable block undecodable" % (what, op, c), loc))
    if not own:
        res.sample({"rule": R5, "container": "Block::deserialize_from_net", "own_thresholds": 0, "transaction_codec_thresholds": sorted(nested), "verdict": "no value-domain restriction of its own"})

    # R6: the slip-count limits of the transaction codec agree: the largest count the writer still encodes is accepted by the reader
    tw2 = find_body(prog, "consensus::transaction::Transaction::serialize_for_net_with_hop")

    def admissible_max(body, is_count):
        """{which: largest value not rejected} from comparisons `count > c` / `count >= c` / `!(a..b).contains(&count)` that lead to a reject"""
        out = {}
        chb = Chaser(body)
        for bb, blk in enumerate(body.blocks):
            t = blk["t"]
            if t["k"] != "switch":
                continue
            e, neg = _gate.unwrap_not(chb.origin(t["discr"]))
            which = None
            limit = None
            if e[0] == "bin" and e[1] in ("Gt", "Ge", "Lt", "Le"):
                a, c = e[2], e[3]
                op = e[1]
                if strip(a)[0] == "const":
                    a, c = c, a
                    op = {"Gt": "Lt", "Ge": "Le", "Lt": "Gt", "Le": "Ge"}[op]
                k = strip(c)
                which = is_count(a)
                if which and k[0] == "const" and isinstance(k[1], int):
                    # the edge on which `a op k` is true rejects when op is Gt/Ge
                    if (op == "Gt") != neg and op in ("Gt", "Le"):
                        limit = k[1] if op == "Gt" else None
                    if op == "Ge" and not neg:
                        limit = k[1] - 1
                    if op == "Gt" and not neg:
                        limit = k[1]
            elif e[0] == "call" and e[1].endswith("Range::contains") and len(e[2]) == 2:
                rng, v = e[2]
                while rng[0] in ("ref", "deref"):
                    rng = rng[1]
                if rng[0] == "const" and "::promoted[" in (rng[2] or ""):
                    # `&(a..b)` with constant bounds is a promoted constant: read the range out of the promoted body
                    pb = prog.bodies.get(rng[2]) or body.unit.bodies.get(rng[2])
                    if pb is not None:
                        chp = Chaser(pb)
                        for blk2 in pb.blocks:
                            for st2 in blk2["s"]:
                                if st2[0] == "=" and st2[2][0] == "agg" and st2[2][1][0] == "adt" and st2[2][1][1].endswith("Range"):
                                    rng = chp.rvalue(st2[2], 0)
                which = is_count(v)
                if which and rng[0] == "agg" and len(rng[2]) == 2 and strip(rng[2][1])[0] == "const":
                    limit = strip(rng[2][1])[1] - 1       # half-open range a..b admits up to b-1
            elif e[0] == "call" and e[1].endswith("RangeInclusive::contains") and len(e[2]) == 2:
                which = is_count(e[2][1])
                for x in walk(e[2][0]):
                    if x[0] == "const" and isinstance(x[1], int) and x[1] > 0:
                        limit = x[1]
            if which and limit is not None:
                out[which] = min(limit, out.get(which, limit))
        return out

    def writer_count(e):
        x = strip(e)
        if x[0] == "len":
            for f in ("from", "to"):
                if has_field_named(x[1], f):
                    return f
        return None

    def has_field_named(e, f):
        return any(y[0] == "field" and y[3] == f and y[2].endswith("transaction::Transaction") for y in walk(e))

    def reader_count(e):
        # decoded from bytes[0..4] (inputs) / bytes[4..8] (outputs)
        for y in walk(e):
            if y[0] == "call" and y[1] == "std::ops::Index::index" and len(y[2]) == 2:
                idx = y[2][1]
                while idx[0] in ("ref", "deref"):
                    idx = idx[1]
                if idx[0] == "agg" and len(idx[2]) == 2 and all(o[0] == "const" for o in idx[2]):
                    lo = idx[2][0][1]
                    return {0: "from", 4: "to"}.get(lo)
        return None
    wmax = admissible_max(tw2, writer_count)
    rmax = admissible_max(td, reader_count)
    for f in ("from", "to"):
        res.instance(R6)
        if f not in wmax or f not in rmax:
            res.not_decided.append("slip-count limit of Transaction.%s: writer %s, reader %s" % (f, wmax.get(f), rmax.get(f)))
        elif rmax[f] < wmax[f]:
            res.add(Finding(R6, "C09.count-limits|Transaction.%s" % f, "Transaction::serialize_for_net encodes up to %d %s slips but deserialize_from_net rejects more than %d: "
                            "a transaction at the upper limit does not survive the wire" % (wmax[f], "input" if f == "from" else "output", rmax[f]), td.loc(0)))
        else:
            res.sample({"rule": R6, "count": f, "writer_max": wmax[f], "reader_max": rmax[f], "verdict": "reader accepts everything the writer encodes"})

    # tags
    gv = prog.body(CORE + "msg::message::Message::get_type_value")
    from .. import gate as _g10
    from ..linear import Linearizer as _Lz10
    from ..expr import walk as _wk10
    de = prog.body(CORE + "msg::message::Message::deserialize")
    if gv is None or de is None:
        raise LookupError("Message::get_type_value / deserialize not found")
    adt = prog.adts[CORE + "msg::message::Message"]
    by_discr = {v["discr"]: v["name"] for v in adt["variants"]}
    tag_of = {}
    for bb, blk in enumerate(gv.blocks):
        t = blk["t"]
        if t["k"] == "switch":
            for v, tgt in t["targets"]:
                name = by_discr.get(v)
                # the arm assigns _0 = const tag
                seen, stack = set(), [tgt]
                while stack:
                    x = stack.pop()
                    if x in seen:
                        continue
                    seen.add(x)
                    for st in gv.stmts(x):
                        if st[0] == "=" and st[1] == [0, []] and st[2][0] == "use" and st[2][1][0] == "k" and "v" in st[2][1][1]:
                            tag_of[name] = st[2][1][1]["v"]
                    if name in tag_of:
                        break
                    stack.extend(gv.succ(x))
    inv = {}
    for name, tag in tag_of.items():
        res.instance(R3)
        if tag in inv:
            res.add(Finding(R3, "C09.tags|duplicate|%d" % tag, "Message::%s and Message::%s share the wire tag %d" % (inv[tag], name, tag), gv.loc(0)))
        inv[tag] = name
    if len(tag_of) < len(adt["variants"]) - 1:
        res.not_decided.append("only %d of %d Message variants have a recognisable tag arm" % (len(tag_of), len(adt["variants"])))
    # decode arms
    for bb, blk in enumerate(de.blocks):
        t = blk["t"]
        if t["k"] != "switch" or de.tyix(t["dty"])["s"] != "u8":
            continue
        for v, tgt in t["targets"]:
            made = set()
            seen, stack = set(), [tgt]
            other_arm_targets = {x for vv, x in t["targets"] if x != tgt} | {t["otherwise"]}
            while stack:
                x = stack.pop()
                if x in seen or x in other_arm_targets:
                    continue
                seen.add(x)
                for st in de.stmts(x):
                    if st[0] == "=" and st[2][0] == "agg" and st[2][1][0] == "adt" and st[2][1][1] == CORE + "msg::message::Message":
                        made.add(st[2][1][2])
                stack.extend(de.succ(x))
            # R10: length guards of this arm against the shortest thing the payload's writer can produce
            arm_calls = [(x, de.term(x)) for x in sorted(seen) if de.term(x)["k"] == "call"]
            payload = None
            for x, ct in arm_calls:
                cn = ct.get("res") or ct.get("callee") or ""
                if cn.startswith("saito_core") or cn.startswith("<saito_core"):
                    last = cn.rsplit("::", 1)[-1]
                    if last.startswith("deserialize"):
                        payload = cn
                        break
            if payload is not None:
                res.instance(R10)
                wpath = payload[: -len(payload.rsplit("::", 1)[-1])] + payload.rsplit("::", 1)[-1].replace("deserialize_from_net", "serialize_for_net").replace("deserialize", "serialize")
                wb = prog.bodies.get(wpath)
                segs10 = cd.writer_table(wb) if wb is not None else None
                if segs10:
                    wmin = 0
                    for f_, wd_ in segs10:
                        if wd_ is None:
                            break
                        wmin += wd_
                    chd = Chaser(de)
                    lzd = _Lz10(de, chd, prog)
                    makers = {x for x in seen if any(st[0] == "=" and st[2][0] == "agg" and st[2][1][0] == "adt" and st[2][1][1] == CORE + "msg::message::Message" for st in de.stmts(x))}
                    for c in _g10.order_edges(de, chd, lambda a, b_: any(y[0] == "len" for y in _wk10(a)) and not any(y[0] == "len" for y in _wk10(b_))):
                        if c["bb"] not in seen:
                            continue
                        k10 = lzd.lin(c["b"])
                        if k10 is None or not k10.is_const():
                            continue
                        K = int(k10.c)
                        holds = {"Lt": wmin < K, "Le": wmin <= K, "Gt": wmin > K, "Ge": wmin >= K}[c["op"]]
                        taken = c["true_edges"] if holds else c["false_edges"]
                        # the edge the shortest encoding takes must still be able to build the message
                        dead = [e_ for e_ in taken if not (de.reachable(e_[1]) & makers or e_[1] in makers)]
                        if taken and len(dead) == len(taken):
                            res.add(Finding(R10, "C09.dispatch-guards|%d" % v, "Message::deserialize refuses a tag-%d message whose body is %d bytes long (`len %s %d`), but that is the shortest body "
                                            "%s produces (fixed part, every count zero): the empty value does not survive the round trip"
                                            % (v, wmin, {"Lt": "<", "Le": "<=", "Gt": ">", "Ge": ">="}[c["op"]], K, wpath.replace(CORE, "")), de.loc(c["bb"])))
                        else:
                            res.sample({"rule": R10, "tag": v, "guard": "len %s %d" % (c["op"], K), "shortest_encoding": wmin, "verdict": "accepted"})
            res.instance(R3)
            want = inv.get(v)
            if want is None:
                res.add(Finding(R3, "C09.tags|decode|%d|unknown" % v, "Message::deserialize decodes tag %d, which no variant is written with" % v, de.loc(tgt)))
            elif made != {want}:
                res.add(Finding(R3, "C09.tags|decode|%d" % v, "Message::deserialize builds %s for tag %d, but that tag is written for Message::%s"
                                % (sorted(made) or "nothing", v, want), de.loc(tgt)))
            else:
                res.sample({"tag": v, "variant": want, "verdict": "written and decoded consistently"})
        break
    # R8 / R9 over every reader of PAIRS that fills the value field by field (`let mut x = T {..defaults..}; ...; x.f = decoded;`)
    from .. import gate as _g
    from ..paths import Explorer as _Ex
    for label, adt_suffix, wname, rname, _c in PAIRS:
        rb = find_body(prog, rname)
        chr_ = Chaser(rb)
        assigns = {}      # field -> [(bb, stmt index)]
        for bb, blk in enumerate(rb.blocks):
            for i, st in enumerate(blk["s"]):
                if st[0] == "=" and st[1][1] and isinstance(st[1][1][0], list) and st[1][1][0][0] == "f" and st[1][1][0][2].endswith(adt_suffix) and len(st[1][1]) == 1:
                    assigns.setdefault((st[1][0], st[1][1][0][3]), []).append((bb, i))
            t = blk["t"]
            if t["k"] == "call" and t["dest"][1] and isinstance(t["dest"][1][0], list) and t["dest"][1][0][0] == "f" and t["dest"][1][0][2].endswith(adt_suffix) and len(t["dest"][1]) == 1:
                assigns.setdefault((t["dest"][0], t["dest"][1][0][3]), []).append((bb, 10 ** 6))
        if not assigns:
            continue
        ret = rb.ty(0)
        fallible = ret["k"] == "adt" and ret.get("d") in ("std::result::Result", "std::option::Option")
        ok_acc = _g.make_accept(rb, return_tags={"Ok", "Some"})

        def ok_exit(bb, env):
            if rb.term(bb)["k"] != "return":
                return None
            if not fallible:
                return "return"
            r = ok_acc(bb, env)
            return r if r in ("return-Ok", "return-Some", "return-unknown") else None

        wsegs = cd.writer_table(find_body(prog, wname))
        prefix_at = {}
        off = 0
        for f, w_ in wsegs:
            if off is None:
                break
            if f and f.endswith(".len") and w_ is not None:
                prefix_at[f[:-4]] = (off, w_)
            off = off + w_ if w_ is not None else None

        def is_presence_test(e, fld):
            """a test that can say "nothing (more) to read for this field": a comparison on the input's length, or on the field's own
            length prefix (the bytes the writer puts in front of it)"""
            for x in walk(e):
                if x[0] == "len" and strip(x[1])[0] in ("param", "local"):
                    return True
                if fld in prefix_at and x[0] == "call" and x[1] == "std::ops::Index::index" and len(x[2]) == 2:
                    idx = x[2][1]
                    while idx[0] in ("ref", "deref"):
                        idx = idx[1]
                    if idx[0] == "agg" and idx[1][0] == "adt" and idx[1][1].endswith("ops::Range") and len(idx[2]) == 2 and all(o[0] == "const" for o in idx[2]):
                        if (idx[2][0][1], idx[2][1][1] - idx[2][0][1]) == prefix_at[fld]:
                            return True
            return False
        # R8
        written = {f.split(".")[0] for f, _w in cd.writer_table(find_body(prog, wname)) if f}
        for (loc_, fld), sites in sorted(assigns.items()):
            if fld not in written:
                continue       # derived, not a wire field
            blocks = {bb for bb, _ in sites}
            # presence tests: switches on input-derived conditions that decide whether the assignment runs
            skip_edges = set()
            conditional = False
            for sb, blk in enumerate(rb.blocks):
                t = blk["t"]
                if t["k"] != "switch" or not any(rb.dominates(sb, a) and sb != a for a in blocks):
                    continue
                succ = rb.succ(sb)
                reach = {s2: rb.reachable(s2) for s2 in succ}
                if all(any(a in reach[s2] for a in blocks) for s2 in succ):
                    continue       # not control-dependent
                conditional = True
                if is_presence_test(chr_.origin(t["discr"]), fld):
                    for s2 in succ:
                        if not any(a in reach[s2] for a in blocks):
                            skip_edges.add((sb, s2))
            if not conditional:
                continue
            res.instance(R8)
            found = _Ex(rb).explore(0, deleted_edges=skip_edges, blocked=blocks, accept=ok_exit)
            if found:
                kind, pth = sorted(found.items())[0]
                res.add(Finding(R8, "C09.no-field-skipped|%s|%s" % (label, fld), "%s: the decoder can return Ok without decoding `%s` and without the presence test of that field "
                                "having said there is nothing to read (the writer always writes it)" % (label, fld), rb.loc(pth[-1]), {"path": [rb.loc(x) for x in pth[:14]]}))
            else:
                res.sample({"rule": R8, "codec": label, "field": fld, "verdict": "decoded, or skipped only by its own presence test"})
        # R9: reads of x.f (directly, or inside a workspace callee that is handed &x) not dominated by an assignment of x.f
        by_local = {}
        for (loc_, fld), sites in assigns.items():
            by_local.setdefault(loc_, {})[fld] = sites
        for loc_, flds in by_local.items():
            for bb, blk in enumerate(rb.blocks):
                reads = []
                for i, st in enumerate(blk["s"]):
                    if st[0] != "=":
                        continue
                    for pl in _places_read(st[2]):
                        if pl[0] == loc_ and pl[1] and isinstance(pl[1][0], list) and pl[1][0][0] == "f" and pl[1][0][3] in flds:
                            reads.append((i, pl[1][0][3], "read"))
                t = blk["t"]
                if t["k"] == "call":
                    callee = prog.bodies.get(t.get("res") or t.get("callee") or "")
                    for ai, a in enumerate(t["args"]):
                        root = recv_local(rb, a)
                        if root == loc_ and callee is not None and not callee.is_promoted and a[0] in ("cp", "mv") and ai + 1 <= callee.argc:
                            cread = _fields_read_of_param(callee, ai + 1, adt_suffix)
                            for f2 in cread & set(flds):
                                reads.append((10 ** 6 - 1, f2, "read in %s" % callee.path.rsplit("::", 1)[-1]))
                for (i, f2, how) in reads:
                    res.instance(R9)
                    ok = any((ab == bb and ai_ < i) or (ab != bb and rb.dominates(ab, bb)) for ab, ai_ in flds[f2])
                    # the defaults of a struct literal count as assigned only for fields the decoder never assigns later
                    if not ok:
                        res.add(Finding(R9, "C09.read-before-decode|%s|%s" % (label, f2), "%s: the decoder consults `%s` (%s) before that field has been assigned from the input: "
                                        "the decision is taken on the default value" % (label, f2, how), rb.loc(bb)))
    # R7: tuple variants of Message whose payload is built inline in Message::serialize (`[a.as_slice(), b.to_be_bytes().as_slice()].concat()`)
    # and taken apart inline in Message::deserialize: field k of the variant is written at the offset it is read from
    ms = find_body(prog, "msg::message::Message::serialize")
    chs7, chd7 = Chaser(ms), Chaser(de)
    written = {}      # variant -> {field index: (offset, width)}
    for bb, t in ms.calls():
        n = call_name(t) or ""
        if n not in ("std::slice::concat", "std::slice::Concat::concat", "std::slice::Join::join"):
            continue
        e = chs7.origin(t["args"][0])
        agg = next((x for x in walk(e) if x[0] == "agg" and x[1][0] == "array"), None)
        if agg is None:
            continue
        off = 0
        var = None
        lay = {}
        for el in agg[2]:
            dc = [x for x in walk(el) if x[0] == "field" and x[1][0] == "downcast" and x[2].endswith("msg::message::Message")]
            w = cd.width_of(ms, el)
            if w is None and dc:
                # the type of field k of that variant ([u8; N] / an integer written with to_be_bytes)
                a7 = prog.adts.get(dc[0][2])
                u7 = prog.adt_unit.get(dc[0][2])
                for v7 in (a7 or {}).get("variants", []):
                    if v7["name"] == dc[0][1][2]:
                        for f7 in v7["fields"]:
                            if f7["name"] == dc[0][3] and isinstance(f7.get("ty"), int):
                                ty7 = u7.types[f7["ty"]]
                                w = ty7.get("n") if ty7["k"] == "array" and u7.types[ty7["i"]]["s"] == "u8" else INT.get(ty7["s"])
            if dc:
                var = dc[0][1][2]
                if off is not None and w is not None:
                    lay[int(dc[0][3])] = (off, w)
            off = off + w if (off is not None and w is not None) else None
        if var is not None and lay:
            written[var] = lay

    def const_range(e):
        out = []
        for x in walk(e):
            if x[0] == "call" and x[1] == "std::ops::Index::index" and len(x[2]) == 2:
                idx = x[2][1]
                while idx[0] in ("ref", "deref"):
                    idx = idx[1]
                if idx[0] == "agg" and idx[1][0] == "adt" and idx[1][1].endswith("ops::Range") and len(idx[2]) == 2 and all(o[0] == "const" for o in idx[2]):
                    out.append((idx[2][0][1], idx[2][1][1] - idx[2][0][1]))
        return out
    read = {}
    for blk in de.blocks:
        for st in blk["s"]:
            if st[0] == "=" and st[2][0] == "agg" and st[2][1][0] == "adt" and st[2][1][1] == CORE + "msg::message::Message" and len(st[2][2]) >= 2:
                lay = {}
                for i, op in enumerate(st[2][2]):
                    rs = const_range(chd7.origin(op))
                    if len(rs) == 1:
                        lay[i] = rs[0]
                if lay:
                    read[st[2][1][2]] = lay
    for var in sorted(set(written) | set(read)):
        w, r = written.get(var, {}), read.get(var, {})
        for k in sorted(set(w) | set(r)):
            res.instance(R7)
            if k in w and k in r and w[k] != r[k]:
                res.add(Finding(R7, "C09.inline-variants|%s|%d" % (var, k), "Message::%s: field %d is written at bytes %d..%d of the payload but read from %d..%d"
                                % (var, k, w[k][0], w[k][0] + w[k][1], r[k][0], r[k][0] + r[k][1]), de.loc(0)))
            elif k in w and k in r:
                res.sample({"rule": R7, "variant": var, "field": k, "bytes": "%d..%d" % (w[k][0], w[k][0] + w[k][1])})
            else:
                res.not_decided.append("Message::%s field %d: %s side not recognised" % (var, k, "reader" if k in w else "writer"))
    # a lite block goes through the same Block codec; what it keeps of the header decides whether the hash recomputed after the round
    # trip is still the one it claims (C18.header, cross-listed)
    from ._include import include
    include(res, prog, tier, extra, "c18", ["C18.header"],
            "the header a lite block is serialised with is the full block's header, field by field: otherwise the decoded block re-hashes to something else")
    res.explanation = (
        "Decides layout agreement between sibling encoders and decoders: for each codec pair the ordered (field, width) segments of the writer's concat aggregate and the "
        "constant ranges the reader initialises each field from must coincide on the fixed-layout prefix; size constants equal that prefix; the Message tag table is "
        "injective and consistent with the decode arms. It does not decide equality of decoded values for variable parts, hash/signature preservation, GhostChainSync's "
        "count-scaled layout, or the text formats (BalanceSnapshot, PeerService).")
    res.assumptions = ["widths come from the compiler's types of the written expressions ([u8; N], to_be_bytes results)", "codec pair table PAIRS in analysis/rules/c09.py"]
    return res
