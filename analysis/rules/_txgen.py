"""Where Block::generate lets every carried transaction regenerate itself (Transaction::generate): directly in a loop, in the
closure of an eager iterator consumer (for_each / fold) over the transactions, or in a private Block method it calls."""
from ..expr import Chaser, call_name, walk

CORE = "saito_core::core::"
BLK = CORE + "consensus::block::Block::"
TXGEN = CORE + "consensus::transaction::Transaction::generate"
EAGER = ("for_each", "fold")


def _bypass(body, sites, goals=None):
    if 0 in sites:
        return None
    r = body.reachable(0, blocked=set(sites))
    hit = sorted(x for x in (goals if goals is not None else body.return_blocks()) if x in r and x not in sites)
    return hit[0] if hit else None


def skips_iteration(body, header, sites):
    """can the loop with this header get from the header back to it without entering a block of `sites`?"""
    loop = body.natural_loop(header)
    outside = {x for x in range(len(body.blocks)) if x not in loop}
    for s0 in body.succ(header):
        if s0 not in loop or s0 in sites:
            continue
        r = body.reachable(s0, blocked=set(sites) | outside | {header})
        if any(header in body.succ(x) for x in r):
            return True
    return False


class Site:
    """one way a body regenerates the transactions: `anchor` is the block of `body` that stands for 'all of them were regenerated'
    (loop header / consumer call); `call_body`/`call_bb` is the Transaction::generate call; `every` says no element is skipped"""
    def __init__(self, body, anchor, call_body, call_bb, every, form):
        self.body, self.anchor, self.call_body, self.call_bb, self.every, self.form = body, anchor, call_body, call_bb, every, form


def sites_in(prog, body):
    out = []
    calls = [bb for bb, t in body.calls() if (t.get("res") or t.get("callee") or "") == TXGEN]
    for bb in calls:
        h = body.innermost_loop_containing([bb])
        if h is not None:
            out.append(Site(body, h, body, bb, not skips_iteration(body, h, set(calls)), "loop"))
    ch = None
    for bb, t in body.calls():
        n = (call_name(t) or "").rsplit("::", 1)[-1]
        if n not in EAGER:
            continue
        ch = ch or Chaser(body)
        for a in t["args"]:
            for x in walk(ch.origin(a)):
                if x[0] == "agg" and x[1][0] == "closure":
                    cb = prog.bodies.get(x[1][1])
                    if cb is None:
                        continue
                    cc = {b2 for b2, t2 in cb.calls() if (t2.get("res") or t2.get("callee") or "") == TXGEN}
                    if cc:
                        out.append(Site(body, bb, cb, sorted(cc)[0], _bypass(cb, cc) is None, n))
    return out


def generate_sites(prog):
    """(sites in Block::generate itself, [(call bb in Block::generate, helper body, sites in helper)])"""
    bg = prog.body(BLK + "generate")
    if bg is None:
        raise LookupError("Block::generate not found")
    own = sites_in(prog, bg)
    helpers = []
    for bb, t in bg.calls():
        hb = prog.bodies.get(t.get("res") or t.get("callee") or "")
        if hb is None or hb.is_promoted or hb.path == bg.path or not hb.path.startswith(BLK) or "::tests::" in hb.path:
            continue
        hs = sites_in(prog, hb)
        if hs:
            helpers.append((bb, hb, hs))
    return bg, own, helpers
