"""C06 (clause) - a block's identity binds its content and its creator.

R1 commitment checked on every accept path of Block::validate (exempt: SPV mode, ghost blocks)
R2 creator signature on every accept path
R3 hash derivation covers the commitment: serialize_for_signature reads merkle_root/creator/id/timestamp/
   previous_block_hash; generate_pre_hash hashes that; serialize_for_hash reads previous_block_hash and pre_hash
R4 verify_block: the BlockFetched event is not sent on the mismatch edges of the advertised id / hash comparisons
"""
from .. import gate
from ..expr import Chaser, call_name, fields_in, has_call, has_field, show, strip, walk
from ..paths import Explorer, describe_path
from ..report import Finding, Result
from ._blockvalidate import CORE, BlockValidate


def reads_of(prog, body_path, depth=0):
    """(adt, field) pairs read through the first parameter of a body (and of workspace functions it hands that parameter to)"""
    b = prog.body(body_path)
    if b is None:
        raise LookupError(body_path + " not found")
    out = set()
    if depth < 2:
        for _, t in b.calls():
            callee = t.get("res") or t.get("callee") or ""
            if callee.startswith(("saito_", "<saito_")) and callee != body_path and callee in prog.bodies and t.get("args"):
                a0 = t["args"][0]
                # the receiver itself (or a plain reborrow of it) is passed on: `self.serialize_signed_fields()`
                if a0[0] in ("cp", "mv") and not a0[1][1]:
                    src = a0[1][0]
                    reb = src == 1 or any(d[0] == "stmt" and d[3][0] in ("use", "ref") and repr(d[3]).count("[1, [") > 0 and "'f'" not in repr(d[3]) for d in b.defs(src))
                    if reb:
                        out |= reads_of(prog, callee, depth + 1)
    for blk in b.blocks:
        for st in blk["s"]:
            if st[0] == "=":
                for pl in _places_in_rvalue(st[2]):
                    if pl[0] == 1:
                        for pr in pl[1]:
                            if isinstance(pr, list) and pr[0] == "f":
                                out.add(pr[3])
                                break
        t = blk["t"]
        for a in t.get("args", []):
            if a[0] in ("cp", "mv") and a[1][0] == 1:
                for pr in a[1][1]:
                    if isinstance(pr, list) and pr[0] == "f":
                        out.add(pr[3])
                        break
    return out


def _places_in_rvalue(rv):
    k = rv[0]
    if k == "use" and rv[1][0] in ("cp", "mv"):
        yield rv[1][1]
    elif k in ("ref", "raw"):
        yield rv[2]
    elif k == "cast" and rv[2][0] in ("cp", "mv"):
        yield rv[2][1]
    elif k == "bin":
        for o in (rv[2], rv[3]):
            if o[0] in ("cp", "mv"):
                yield o[1]
    elif k == "un" and rv[2][0] in ("cp", "mv"):
        yield rv[2][1]
    elif k == "agg":
        for o in rv[2]:
            if o[0] in ("cp", "mv"):
                yield o[1]
    elif k == "discr":
        yield rv[1]


def run(prog, tier, extra=None):
    res = Result("C06", "other")
    R1 = res.rule("C06.merkle", "Block::validate accept paths pass the equal edge of merkle_root vs generate_merkle_root(self)", floor=1)
    R2 = res.rule("C06.creator-signature", "Block::validate accept paths pass verify_signature(pre_hash, signature, creator)", floor=1)
    R3 = res.rule("C06.hash-coverage", "signed header / hash derivation read the commitment fields", floor=4)
    R5 = res.rule("C06.merkle-positional", "a merkle parent hashes left ++ right with no ordering between the children", floor=1)
    R7 = res.rule("C06.root-recomputed", "generate_merkle_root returns the stored header root only to lite clients; otherwise the root is computed from the transactions", floor=1)
    R6 = res.rule("C06.merkle-covers-all", "every carried transaction contributes at least one leaf to the merkle tree", floor=1)
    R8 = res.rule("C06.leaf-fresh", "the transaction hash that becomes the merkle leaf and the signed message is recomputed from the content on every Block::generate", floor=3)
    R9 = res.rule("C06.leaf-from-content", "a transaction whose merkle leaf is not computed from its content (type SPV: the leaf is read from its signature bytes) is never accepted by Transaction::validate", floor=1)
    R10 = res.rule("C06.tx-hash-coverage", "the transaction hash (merkle leaf and signed message) covers every input and output and everything that identifies the output an input spends", floor=8)
    R4 = res.rule("C06.verify-block", "verify_block forwards a fetched block only when decoded id and hash equal the advertised ones", floor=2)

    bv = BlockValidate(prog)
    b = bv.body

    # R1
    def merkle_pair(a, c):
        return bv.is_self_field(a, "merkle_root") and has_call(c, "Block::generate_merkle_root")
    cmp = gate.compare_edges(b, bv.ch, merkle_pair)
    res.instance(R1, len(cmp["sites"]))
    if not cmp["sites"]:
        res.add(Finding(R1, "C06.merkle|no-comparison", "Block::validate never compares self.merkle_root with generate_merkle_root(self, ..)", b.loc(0)))
    else:
        # not conditional on validate_against_utxo: a node that joined mid-chain validates with it off and must
        # still bind the transaction list to the signed header
        path, states = bv.must_pass(cmp["eq"])
        if path:
            res.add(Finding(R1, "C06.merkle|bypass",
                            "Block::validate returns true on a path that never establishes merkle_root == generate_merkle_root(transactions)",
                            b.loc(cmp["sites"][0]), {"path": bv.describe(path), "comparison_sites": [b.loc(x) for x in cmp["sites"]]}))
        else:
            res.sample({"rule": R1, "comparison": [b.loc(x) for x in cmp["sites"]], "exempt_exits": bv.exempt_desc, "states": states, "verdict": "must-pass holds"})

    # R2
    def is_creator_sig(e):
        if e[0] != "call" or e[1] != CORE + "util::crypto::verify_signature" or len(e[2]) != 3:
            return False
        return bv.is_self_field(e[2][0], "pre_hash") and bv.is_self_field(e[2][1], "signature") and bv.is_self_field(e[2][2], "creator")
    sig = gate.bool_switch_edges(b, bv.ch, is_creator_sig)
    res.instance(R2, len(sig["sites"]))
    if not sig["sites"]:
        res.add(Finding(R2, "C06.creator-signature|no-site", "Block::validate has no switch on verify_signature(self.pre_hash, self.signature, self.creator)", b.loc(0)))
    else:
        path, states = bv.must_pass(sig["true"])
        if path:
            res.add(Finding(R2, "C06.creator-signature|bypass", "Block::validate returns true on a path that does not pass the creator signature check",
                            b.loc(sig["sites"][0]), {"path": bv.describe(path)}))
        else:
            res.sample({"rule": R2, "site": [b.loc(x) for x in sig["sites"]], "states": states, "verdict": "must-pass holds"})

    # R3
    BLK = CORE + "consensus::block::Block::"
    need_sig = {"merkle_root", "creator", "id", "timestamp", "previous_block_hash"}
    got = reads_of(prog, BLK + "serialize_for_signature")
    res.instance(R3)
    if not need_sig <= got:
        res.add(Finding(R3, "C06.hash-coverage|serialize_for_signature", "serialize_for_signature does not read %s" % sorted(need_sig - got),
                        prog.body(BLK + "serialize_for_signature").loc(0)))
    else:
        res.sample({"rule": R3, "serialize_for_signature_reads": sorted(got)})
    ph = prog.body(BLK + "generate_pre_hash")
    res.instance(R3)
    ch = Chaser(ph)
    ok = False
    for blk in ph.blocks:
        for st in blk["s"]:
            if st[0] == "=" and any(isinstance(pr, list) and pr[0] == "f" and pr[3] == "pre_hash" for pr in st[1][1]):
                e = ch.rvalue(st[2], 0)
                if has_call(e, "crypto::hash") and has_call(e, "Block::serialize_for_signature"):
                    ok = True
        t = blk["t"]
        if t["k"] == "call" and any(isinstance(pr, list) and pr[0] == "f" and pr[3] == "pre_hash" for pr in t["dest"][1]):
            e = ch.call(t, 0, 0)
            if has_call(e, "crypto::hash") and has_call(e, "Block::serialize_for_signature"):
                ok = True
    if not ok:
        res.add(Finding(R3, "C06.hash-coverage|generate_pre_hash", "generate_pre_hash does not assign self.pre_hash = hash(self.serialize_for_signature())", ph.loc(0)))
    need_hash = {"previous_block_hash", "pre_hash"}
    got = reads_of(prog, BLK + "serialize_for_hash")
    res.instance(R3)
    if not need_hash <= got:
        res.add(Finding(R3, "C06.hash-coverage|serialize_for_hash", "serialize_for_hash does not read %s" % sorted(need_hash - got),
                        prog.body(BLK + "serialize_for_hash").loc(0)))
    gh = prog.body(BLK + "generate_hash")
    res.instance(R3)
    chh = Chaser(gh)
    okh = False
    for blk in gh.blocks:
        for st in blk["s"]:
            if st[0] == "=" and (st[1][0] == 0 or any(isinstance(pr, list) and pr[0] == "f" and pr[3] == "hash" for pr in st[1][1])):
                e = chh.rvalue(st[2], 0)
                if has_call(e, "crypto::hash") and has_call(e, "Block::serialize_for_hash"):
                    okh = True
        t = blk["t"]
        if t["k"] == "call" and (call_name(t) or "").endswith("crypto::hash"):
            e = chh.call(t, 0, 0)
            if has_call(e, "Block::serialize_for_hash"):
                okh = True
    if not okh:
        res.add(Finding(R3, "C06.hash-coverage|generate_hash", "generate_hash does not hash self.serialize_for_hash()", gh.loc(0)))

    # R5: the commitment is positional: a parent node hashes left ++ right in that order, with no ordering/selection
    # between the two children (otherwise swapping sibling transactions keeps the root)
    ORDERING = ("cmp", "partial_cmp", "min", "max", "sort", "sort_unstable", "sort_by", "sort_by_key", "swap", "lt", "le", "gt", "ge", "reverse", "minmax")
    merkle_bodies = [x for x in prog.all_bodies() if x.path.startswith(CORE + "consensus::merkle::MerkleTree::") and "::tests::" not in x.path]
    hashing = []
    for mb in merkle_bodies:
        chm = Chaser(mb)
        hash_calls = [bb for bb, t in mb.calls() if (call_name(t) or "").endswith("crypto::hash")]
        if not hash_calls:
            continue
        # does it hash two child hashes? (reads two `hash` fields of tree nodes or takes two Option<[u8; 32]>)
        srcs = []
        for bb, t in mb.calls():
            if (call_name(t) or "").rsplit("::", 1)[-1] in ("extend", "extend_from_slice", "append") and len(t["args"]) > 1:
                srcs.append((bb, chm.origin(t["args"][1])))
        child = srcs
        if len(child) < 2:
            continue
        hashing.append(mb)
        res.instance(R5)
        name = mb.path.split("::")[-1]
        bad = [call_name(t) for _, t in mb.calls() if (call_name(t) or "").rsplit("::", 1)[-1] in ORDERING]
        # delegating to a helper that orders is the same thing
        for _, t in mb.calls():
            tgt = prog.bodies.get(t.get("res") or "")
            if tgt is not None and tgt.path.startswith(CORE + "consensus::merkle::") and tgt.path != mb.path:
                bad += [call_name(t2) for _, t2 in tgt.calls() if (call_name(t2) or "").rsplit("::", 1)[-1] in ORDERING]
        order = mb.rpo()
        pos = {b_: i for i, b_ in enumerate(order)}
        child.sort(key=lambda c: pos.get(c[0], 1 << 30))
        first, second = show(child[0][1]), show(child[1][1])
        positional = ("left" in first and "right" in second) or ("left" not in second and "right" not in first and first != second)
        if bad:
            res.add(Finding(R5, "C06.merkle-positional|%s|ordering" % mb.path, "MerkleTree::%s orders or selects between the two child hashes (%s) before hashing: the root no longer "
                            "commits to the order of sibling transactions" % (name, sorted(set(x.rsplit("::", 1)[-1] for x in bad))), mb.loc(hash_calls[0])))
        elif not positional:
            res.add(Finding(R5, "C06.merkle-positional|%s|swapped" % mb.path, "MerkleTree::%s hashes its children as (%s, %s), not left then right" % (name, first[:40], second[:40]), mb.loc(hash_calls[0])))
        else:
            res.sample({"rule": R5, "body": name, "hashed": [first[:50], second[:50]], "verdict": "left then right, no ordering between the children"})
    # parents that delegate the combination to a helper
    for mb in merkle_bodies:
        if mb in hashing:
            continue
        for bb, t in mb.calls():
            tgt = prog.bodies.get(t.get("res") or "")
            if tgt in hashing and len(t["args"]) == 2:
                chm = Chaser(mb)
                a0, a1 = show(chm.origin(t["args"][0])), show(chm.origin(t["args"][1]))
                res.instance(R5)
                if "right" in a0 and "left" in a1:
                    res.add(Finding(R5, "C06.merkle-positional|%s|swapped-args" % mb.path, "MerkleTree::%s passes (right, left) to the node hashing helper" % mb.path.split("::")[-1], mb.loc(bb)))
    if not hashing:
        res.add(Finding(R5, "C06.merkle-positional|none", "no MerkleTree body that hashes two child hashes was recognised (anchor moved?)", "saito-core/src/core/consensus/merkle.rs"))

    # R4
    # R7: Block::validate compares the header root with generate_merkle_root(..). That comparison binds the content only if the
    # function recomputes the root; returning the block's own stored merkle_root makes it compare the header with itself. The stored
    # root may be handed back only on an edge where is_browser / is_spv is true (a lite client cannot recompute it).
    gm = prog.body(CORE + "consensus::block::Block::generate_merkle_root")
    if gm is None:
        raise LookupError("Block::generate_merkle_root not found")
    chgm = Chaser(gm)
    res.instance(R7)
    own = set()
    for d in gm.defs(0):
        e = chgm.rvalue(d[3], 0) if d[0] == "stmt" else chgm.call(d[2], d[1], 0)
        if has_field(e, "block::Block", "merkle_root"):
            own.add(d[1])
    # a local that carries self.merkle_root into the result
    for l in range(gm.argc + 1, len(gm.locals)):
        for d in gm.defs(l):
            if d[0] == "stmt" and has_field(chgm.rvalue(d[3], 0), "block::Block", "merkle_root") and any(
                    dd[0] == "stmt" and any(x[0] == "local" and x[1] == l for x in walk(chgm.rvalue(dd[3], 0))) for dd in gm.defs(0)):
                own.add(d[1])
    lite = gate.bool_switch_edges(gm, chgm, lambda e: strip(e)[0] == "param" and strip(e)[2] in ("is_browser", "is_spv"))
    if own:
        reach = gm.reachable(0, deleted_edges=lite["true"])
        bad = [bb for bb in own if bb in reach]
        if bad:
            res.add(Finding(R7, "C06.root-recomputed|own-root", "Block::generate_merkle_root can return the block's own stored merkle_root on a full node (not behind is_browser / is_spv): "
                            "Block::validate then compares the header root with itself and a block stripped of its transactions passes", gm.loc(bad[0])))
        else:
            res.sample({"rule": R7, "stored_root_returned_at": [gm.loc(x) for x in sorted(own)], "verdict": "only behind is_browser / is_spv"})
    else:
        res.sample({"rule": R7, "verdict": "the stored root is never returned"})

    # R6: the root commits to the transaction list only if no transaction can be skipped when the leaves are made: in
    # MerkleTree::generate, from the start of one iteration over `transactions` the next iteration (or the end of the loop) is not
    # reachable without pushing a leaf. A leaf loop `for _ in 0..tx.txs_replacements` (a wire field) runs zero times for 0, unless it
    # sits behind a test txs_replacements > k.
    mg = prog.body(CORE + "consensus::merkle::MerkleTree::generate")
    if mg is None:
        raise LookupError("MerkleTree::generate not found")
    chm = Chaser(mg)
    pushes = {bb for bb, t in mg.calls() if (call_name(t) or "").rsplit("::", 1)[-1] in ("push_back", "push", "push_front", "insert")
              and "MerkleTreeNode" in " ".join(mg.tyix(c)["s"] for c in t.get("cargs", []))}
    outer = []
    inner = []
    for bb, t in mg.calls():
        if call_name(t) != "std::iter::Iterator::next" or not t["args"]:
            continue
        it = chm.origin(t["args"][0])
        if has_field(it, "transaction::Transaction", "txs_replacements"):
            inner.append(bb)
        elif any(x[0] == "param" for x in walk(it)) and "Transaction" in " ".join(mg.tyix(c)["s"] for c in t.get("cargs", [])):
            outer.append(bb)

    def some_none_edges(nb):
        sw = mg.term(nb).get("t")
        hops = 0
        while sw is not None and mg.term(sw)["k"] != "switch" and hops < 6:
            sw = mg.term(sw).get("t")
            hops += 1
        if sw is None or mg.term(sw)["k"] != "switch":
            return set(), set()
        return gate.variant_edges(mg, sw, 1), gate.variant_edges(mg, sw, 0)
    guards = gate.order_edges(mg, chm, lambda a, c: has_field(a, "transaction::Transaction", "txs_replacements") and c[0] == "const" and isinstance(c[1], int))
    guard_true_targets = set()
    for g in guards:
        k = g["b"][1]
        if (g["op"] == "Gt" and k >= 0) or (g["op"] == "Ge" and k >= 1):
            guard_true_targets |= {tgt for (_, tgt) in g["true_edges"]}
        if (g["op"] == "Le" and k >= 0) or (g["op"] == "Lt" and k >= 1):
            guard_true_targets |= {tgt for (_, tgt) in g["false_edges"]}
    assumed = set()
    for nb in inner:
        hdr = mg.innermost_loop_containing([nb])
        loop = mg.natural_loop(hdr) if hdr is not None else set()
        rng = chm.origin(mg.term(nb)["args"][0])
        floor_one = any(y[0] in ("call", "via") and y[1].rsplit("::", 1)[-1] == "max" and any(
            z[0] == "const" and isinstance(z[1], int) and z[1] >= 1 for z in (y[2] if y[0] == "call" else [y[2]]) if isinstance(z, tuple)) for y in walk(rng))
        if any(p_ in loop for p_ in pushes) and (floor_one or any(mg.dominates(gt, nb) for gt in guard_true_targets)):
            assumed |= some_none_edges(nb)[1]      # behind `txs_replacements > k` the leaf loop has run before it is left
    res.instance(R6, max(len(outer), 1))
    if not outer or not pushes:
        res.add(Finding(R6, "C06.merkle-covers-all|anchors", "MerkleTree::generate: loop over the transactions / leaf pushes not found (%d loops, %d pushes)" % (len(outer), len(pushes)), mg.loc(0)))
    for nb in outer:
        some, none = some_none_edges(nb)
        bad = None
        for (_, tgt) in some:
            pth = mg.find_path(tgt, {nb} | set(mg.return_blocks()), deleted_edges=assumed, blocked=pushes)
            if pth:
                bad = pth
        if bad:
            res.add(Finding(R6, "C06.merkle-covers-all|skipped", "MerkleTree::generate can move on to the next transaction without adding a leaf for the current one (a leaf loop "
                            "over 0..txs_replacements runs zero times for a transaction declaring 0): the root does not commit to that transaction",
                            mg.loc(bad[0]), {"path": describe_path(mg, bad)}))
        else:
            res.sample({"rule": R6, "loop": mg.loc(nb), "leaf_pushes": [mg.loc(x) for x in sorted(pushes)], "verdict": "every iteration pushes a leaf"})

    # R8: the merkle leaf (and the message of the transaction signature) is Transaction.hash_for_signature. The binding of the block
    # hash to the transaction content therefore needs that field to be a function of the current content whenever the block is
    # validated: Block::generate calls Transaction::generate for every carried transaction, Transaction::generate always calls
    # generate_hash_for_signature, and that function always overwrites the field ("only when still None" keeps a stale hash).
    from ..fields import place_has_field as _phf
    TXP = CORE + "consensus::transaction::Transaction::"
    bg = prog.body(CORE + "consensus::block::Block::generate")
    tg = prog.body(TXP + "generate")
    hg = prog.body(TXP + "generate_hash_for_signature")
    if bg is None or tg is None or hg is None:
        raise LookupError("Block::generate / Transaction::generate / generate_hash_for_signature not found")
    def bypass(body, sites, goals=None):
        """a block of `goals` (default: the returns) reachable from the entry without entering a block of `sites`"""
        if 0 in sites:
            return None
        r = body.reachable(0, blocked=set(sites))
        hit = sorted(x for x in (goals if goals is not None else body.return_blocks()) if x in r and x not in sites)
        return hit[0] if hit else None
    # Block::generate -> Transaction::generate inside a loop over the transactions, before the root is computed
    res.instance(R8)
    from ._txgen import generate_sites as _gs
    _bg, own_sites, helper_sites = _gs(prog)
    root_sites = {bb for bb, t in bg.calls() if (call_name(t) or "").endswith("Block::generate_merkle_root")}
    anchors = {s_.anchor for s_ in own_sites}
    all_sites = list(own_sites)
    for hbb, hb, hs in helper_sites:
        # the helper counts when it cannot return without reaching its loop / consumer
        if bypass(hb, {s_.anchor for s_ in hs}) is None:
            anchors.add(hbb)
            all_sites += hs
    if not all_sites:
        res.add(Finding(R8, "C06.leaf-fresh|block-generate", "Block::generate no longer calls Transaction::generate for each carried transaction", bg.loc(0)))
    elif root_sites and bypass(bg, anchors, root_sites) is not None:
        res.add(Finding(R8, "C06.leaf-fresh|root-before-leaves", "Block::generate can compute the merkle root before the transactions regenerated their hashes", bg.loc(sorted(root_sites)[0])))
    elif not all(s_.every for s_ in all_sites):
        bad_ = [s_ for s_ in all_sites if not s_.every][0]
        res.add(Finding(R8, "C06.leaf-fresh|some-transactions", "Block::generate's pass over the transactions can finish with a transaction without calling Transaction::generate: that "
                        "transaction keeps whatever hash it carried", bad_.call_body.loc(bad_.call_bb)))
    else:
        res.sample({"rule": R8, "body": "Block::generate", "per_transaction_generate": ["%s (%s)" % (s_.call_body.loc(s_.call_bb), s_.form) for s_ in all_sites],
                    "verdict": "every transaction, before the root is computed"})
    # Transaction::generate -> generate_hash_for_signature on every path
    res.instance(R8)
    hs = {bb for bb, t in tg.calls() if (t.get("res") or t.get("callee") or "") == hg.path}
    f8 = bypass(tg, hs)
    if f8 is not None:
        path = tg.find_path(0, {f8}, blocked=hs)
        res.add(Finding(R8, "C06.leaf-fresh|conditional-rehash", "Transaction::generate can return without recomputing hash_for_signature: a transaction whose content changed after a hash "
                        "was cached keeps the old merkle leaf and signed message, so the edited block still validates", tg.loc(path[-1]), {"path": describe_path(tg, path)}))
    else:
        res.sample({"rule": R8, "body": "Transaction::generate", "rehash": [tg.loc(x) for x in sorted(hs)], "verdict": "on every path"})
    # generate_hash_for_signature overwrites the field on every path
    res.instance(R8)
    stores = {bb for bb, blk in enumerate(hg.blocks) for st in blk["s"] if st[0] == "=" and _phf(st[1], "transaction::Transaction", "hash_for_signature") is not None}
    stores |= {bb for bb, t in hg.calls() if _phf(t["dest"], "transaction::Transaction", "hash_for_signature") is not None}
    if not stores or bypass(hg, stores) is not None:
        res.add(Finding(R8, "C06.leaf-fresh|conditional-store", "generate_hash_for_signature can return without overwriting hash_for_signature", hg.loc(0)))
    else:
        res.sample({"rule": R8, "body": "Transaction::generate_hash_for_signature", "stores": [hg.loc(x) for x in sorted(stores)], "verdict": "on every path"})

    # R9: generate_hash_for_signature takes the leaf of an SPV-typed transaction from signature[0..32]. Such a stub stands in for any
    # transaction with that hash without changing root, pre_hash, block hash or creator signature, so full validation (Block::validate
    # -> Transaction::validate, also the pool's) must refuse the type: no edge on which transaction_type is known to be SPV may
    # reach a possibly-true return. (Lite clients leave Block::validate at the SPV-mode exit and never get here.)
    tvb = prog.body(TXP + "validate")
    if tvb is None:
        raise LookupError("Transaction::validate not found")
    spv_leaf = any(st[0] == "=" and _phf(st[1], "transaction::Transaction", "hash_for_signature") is not None for blk in hg.blocks for st in blk["s"]) and \
        gate.enum_compare_edges(prog, hg, Chaser(hg), "transaction::TransactionType", "transaction_type", {"SPV"})[1]
    res.instance(R9)
    if not spv_leaf:
        res.sample({"rule": R9, "verdict": "generate_hash_for_signature has no SPV-specific leaf: every leaf is a hash of the content"})
    else:
        tvc = Chaser(tvb)
        spv_edges, spv_sites = gate.enum_compare_edges(prog, tvb, tvc, "transaction::TransactionType", "transaction_type", {"SPV"})
        bad9 = None
        for (src, tgt) in sorted(spv_edges):
            f9 = Explorer(tvb).explore(tgt, accept=gate.make_accept(tvb, return_true=True))
            if f9:
                kind, path = sorted(f9.items())[0]
                bad9 = (src, path)
                break
        if bad9:
            res.add(Finding(R9, "C06.leaf-from-content|spv-accepted", "Transaction::validate can return true for a transaction of type SPV, whose merkle leaf is read from its signature bytes "
                            "instead of being computed from its content: a stub carrying another transaction's hash replaces that transaction in a signed full block without changing "
                            "the root or the block hash, and the block is still accepted", tvb.loc(bad9[0]), {"path": describe_path(tvb, bad9[1])}))
        elif not spv_edges:
            res.not_decided.append("C06.leaf-from-content: Transaction::validate has no branch on the SPV type; SPV-typed transactions are judged by the rules for user transactions")
        else:
            res.sample({"rule": R9, "spv_branches": [tvb.loc(b) for b, _ in spv_sites], "verdict": "every SPV branch leads to rejection"})

    # R10: the leaf commits to a transaction only as far as Transaction::serialize_for_signature reads it. Needed: the scalar fields,
    # every element of `from` and `to` (no thinning adaptor between the vectors and the per-slip serialisation), for an output its
    # owner/amount/type, and for an input everything that goes into the UTXO key it spends (Slip::get_utxoset_key) - otherwise a
    # relaying party can re-point the input at another output without touching leaf, root or block hash.
    SLP = CORE + "consensus::slip::Slip::"
    tsig = prog.body(TXP + "serialize_for_signature")
    if tsig is None:
        raise LookupError("Transaction::serialize_for_signature not found")
    sig_bodies = [tsig] + [b_ for p_, b_ in prog.bodies.items() if p_.startswith(TXP + "serialize_for_signature::{closure") and not b_.is_promoted]
    got_tx = reads_of(prog, TXP + "serialize_for_signature")
    for fld in ("timestamp", "from", "to", "transaction_type", "data", "txs_replacements"):
        res.instance(R10)
        if fld not in got_tx:
            res.add(Finding(R10, "C06.tx-hash-coverage|transaction|%s" % fld, "Transaction::serialize_for_signature does not read Transaction.%s: the field can be changed after signing "
                            "without changing the merkle leaf" % fld, tsig.loc(0)))
    # the routing path is added hop by hop after the sender signed, so the *signature* cannot cover it - but the merkle leaf is the same
    # hash, so the block hash does not commit to the paths either: a relaying party can swap a hop for another one the same router
    # signed; total_work and the lottery outcome then differ between two copies of one block hash
    res.instance(R10)
    if "path" not in got_tx:
        res.add(Finding(R10, "C06.tx-hash-coverage|leaf|path", "the merkle leaf of a transaction is its hash_for_signature, which does not cover Transaction.path: two copies of a signed block that "
                        "differ in a routing hop have the same hash, are both accepted, and give different routing work / payout winners - the nodes holding them part ways at the next block",
                        tsig.loc(0)))
    THIN = ("filter", "filter_map", "skip", "skip_while", "take", "take_while", "step_by", "find", "nth", "last", "next", "rev_skip", "dedup", "dedup_by_key")
    thin = [(b_, bb, (call_name(t) or "").rsplit("::", 1)[-1]) for b_ in sig_bodies for bb, t in b_.calls()
            if (call_name(t) or "").rsplit("::", 1)[-1] in THIN and ("iter::" in (call_name(t) or "") or "Iterator" in (call_name(t) or ""))
            # `next` at the head of a `for` loop drives the loop: every element is visited
            and not ((call_name(t) or "").rsplit("::", 1)[-1] == "next" and b_.innermost_loop_containing([bb]) is not None)]
    res.instance(R10)
    if thin:
        b_, bb, n = thin[0]
        res.add(Finding(R10, "C06.tx-hash-coverage|thinned|%s" % n, "Transaction::serialize_for_signature passes the inputs/outputs through `%s` before serialising them: the slips it drops "
                        "are not covered by the merkle leaf or the transaction signature and can be edited in a signed block" % n, b_.loc(bb)))
    else:
        res.sample({"rule": R10, "transaction_fields": sorted(got_tx), "verdict": "all slips serialised, no thinning adaptor"})
    key_fields = reads_of(prog, SLP + "get_utxoset_key")
    in_fields = reads_of(prog, SLP + "serialize_input_for_signature")
    out_fields = reads_of(prog, SLP + "serialize_output_for_signature")
    if not key_fields:
        raise LookupError("Slip::get_utxoset_key reads no field")
    for fld in sorted(key_fields):
        res.instance(R10)
        if fld not in in_fields:
            res.add(Finding(R10, "C06.tx-hash-coverage|input|%s" % fld, "an input's %s is part of the UTXO key it spends (Slip::get_utxoset_key) and travels on the wire, but "
                            "Slip::serialize_input_for_signature does not cover it: a relaying party can re-point the input of a signed transaction in a signed block at another "
                            "unspent output with the same remaining fields; leaf, root, block hash and both signatures stay valid" % fld,
                            prog.body(SLP + "serialize_input_for_signature").loc(0)))
    for fld in ("public_key", "amount", "slip_type"):
        res.instance(R10)
        if fld not in out_fields:
            res.add(Finding(R10, "C06.tx-hash-coverage|output|%s" % fld, "Slip::serialize_output_for_signature does not cover an output's %s" % fld,
                            prog.body(SLP + "serialize_output_for_signature").loc(0)))

    vb = prog.body(CORE + "verification_thread::VerificationThread::verify_block::{closure#0}")
    if vb is None:
        raise LookupError("verify_block not found")
    chv = Chaser(vb)

    def advertised(field):
        def pred(a, c):
            # decoded block field vs the advertised value carried by the request (not a Block field)
            return has_field(a, "block::Block", field) and not has_field(c, "block::Block", field) and c[0] != "const"
        return pred
    send = gate.make_accept(vb, effects=("tokio::sync::mpsc::Sender::send",))
    for field in ("id", "hash"):
        cmpv = gate.compare_edges(vb, chv, advertised(field))
        res.instance(R4, len(cmpv["sites"]))
        if not cmpv["sites"]:
            res.add(Finding(R4, "C06.verify-block|no-%s-comparison" % field, "verify_block does not compare the decoded block %s with the advertised one" % field, vb.loc(0)))
            continue
        # must-pass: no send is reachable from the entry without taking an edge on which the two are equal (the comparison may be
        # switched on directly, kept in a `let matches = a == x && b == y;` flag, or made in a helper)
        ex = Explorer(vb)
        found = ex.explore(0, deleted_edges=cmpv["eq"], accept=send)
        if found:
            kind, path = sorted(found.items())[0]
            res.add(Finding(R4, "C06.verify-block|%s-mismatch-forwarded" % field,
                            "verify_block still sends the block to the consensus thread when its %s differs from the advertised one" % field,
                            vb.loc(cmpv["sites"][0]), {"path": describe_path(vb, path)}))
        else:
            res.sample({"rule": R4, "field": field, "comparison": [vb.loc(x) for x in cmpv["sites"]], "verdict": "no send without the equal edge"})

    res.explanation = (
        "Decides the structural part of the binding: on every path of Block::validate that can return true (outside the SPV-mode and ghost-block exits) "
        "the recomputed merkle root is compared equal with the header's and the creator's signature over pre_hash is verified; the signed bytes read "
        "merkle_root/creator/id/timestamp/previous_block_hash, pre_hash = hash(serialize_for_signature), hash = hash(previous_block_hash ++ pre_hash); "
        "verify_block forwards only on the equal edges of the id/hash comparisons. It does not decide collision resistance of the merkle construction.")
    res.assumptions = ["exempt exits are the SPV-mode return and the ghost-block returns of Block::validate, identified by the provenance of their branch condition",
                       "both values of validate_against_utxo are explored"]
    return res
