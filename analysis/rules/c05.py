"""C05 (clause) - fork choice gating and 'strictly longer'.

R1 add_block marks the candidate chain as longest only on the true edge of is_new_chain_the_longest_chain; in
   Blockchain::validate a failing golden-ticket density check reaches neither a (true, _) result nor wind/unwind
R2 is_new_chain_the_longest_chain returns true only through BlockRing::is_empty() or an edge that implies
   len(new_chain) > len(old_chain), and through old burn fee <= new burn fee
R3 the golden-ticket density rule reads MIN_GOLDEN_TICKETS_NUMERATOR / DENOMINATOR (not literals)
"""
from .. import gate
from ..expr import Chaser, call_name, has_field, show, strip, walk
from ..paths import Explorer, describe_path
from ..report import Finding, Result

CORE = "saito_core::core::"
BC = CORE + "consensus::blockchain::Blockchain::"


def run(prog, tier, extra=None):
    res = Result("C05", "other")
    R1 = res.rule("C05.gate", "the longest-chain decision and the golden-ticket density verdict gate what follows", floor=4)
    R2 = res.rule("C05.strictly-longer", "is_new_chain_the_longest_chain accepts only a strictly longer chain with at least the burn fee", floor=2)
    R4 = res.rule("C05.density-anchor", "the golden-ticket density is evaluated for every block of the candidate chain (each closes its own window), from that block's own parent hash and ticket flag", floor=1)
    R5 = res.rule("C05.density-window", "the density helper looks at the candidate and exactly DENOMINATOR - 1 ancestors", floor=1)
    R6 = res.rule("C05.density-verdict", "no density verdict `true` is handed up without the ancestor walk having run (walker and every wrapper between it and the gate)", floor=2)
    R7 = res.rule("C05.first-block-shortcut", "the 'ring is empty, so the new chain wins' shortcut of fork choice can only ever apply to the first block: BlockRing.empty is true only in the constructor", floor=2)
    R8 = res.rule("C05.height-follows-parent", "Block::validate accepts a block whose parent is known only if its id is the parent's id plus one", floor=1)
    R3 = res.rule("C05.density-constants", "the density rule is computed from MIN_GOLDEN_TICKETS_NUMERATOR/DENOMINATOR", floor=2)

    # R1a
    ab = prog.body(BC + "add_block::{closure#0}")
    ch = Chaser(ab)
    flag = None
    for n, pl in ab.debug_places():
        if n == "am_i_the_longest_chain" and not pl[1]:
            flag = pl[0]
    verdict = gate.bool_switch_edges(ab, ch, lambda e: e[0] == "call" and e[1] == BC + "is_new_chain_the_longest_chain")
    if flag is None or not verdict["sites"]:
        res.add(Finding(R1, "C05.gate|anchors", "add_block: longest-chain flag or is_new_chain_the_longest_chain test not found", ab.loc(0)))
    else:
        sets = [bb for bb, blk in enumerate(ab.blocks) for st in blk["s"]
                if st[0] == "=" and st[1] == [flag, []] and st[2][0] == "use" and st[2][1][0] == "k" and st[2][1][1].get("v") == 1]
        reach = ab.reachable(0, deleted_edges=verdict["true"])
        res.instance(R1)
        bad = [bb for bb in sets if bb in reach]
        if bad:
            res.add(Finding(R1, "C05.gate|longest-flag", "add_block sets am_i_the_longest_chain = true on a path that does not pass is_new_chain_the_longest_chain() == true", ab.loc(bad[0])))
        elif not sets:
            res.add(Finding(R1, "C05.gate|longest-flag-missing", "add_block never sets the longest-chain flag to true (anchor moved?)", ab.loc(0)))
        else:
            res.sample({"rule": R1, "flag_set_at": [ab.loc(x) for x in sets], "verdict": "only behind the true edge of is_new_chain_the_longest_chain"})
        # the flag gates Blockchain::validate: the reorganisation runs only when the flag is true
        fe = gate.bool_switch_edges(ab, ch, lambda e: e[0] == "local" and e[1] == flag)
        val_blocks = [bb for bb, t in ab.calls() if call_name(t) == BC + "validate"]
        res.instance(R1)
        reach2 = ab.reachable(0, deleted_edges=fe["true"])
        if any(bb in reach2 for bb in val_blocks):
            res.add(Finding(R1, "C05.gate|reorg-without-flag", "add_block starts a reorganisation (Blockchain::validate) on a path where the candidate was not judged the longest chain", ab.loc(val_blocks[0])))
    # R1b: every caller of the density check (Blockchain::validate today) treats a failing verdict as a rejection: no accept
    # outcome of that consumer (true / (true, _) / wind / unwind / BlockAddedSuccessfully / add_block_success) is reachable
    # on the rejecting edge. The 2-of-6 rule is only ever evaluated for the window ending at a candidate tip, so it holds for
    # every window of the adopted chain only if a tip that fails it is discarded rather than kept as a side block
    from .c01 import accept_for
    bv = prog.body(BC + "validate::{closure#0}")
    DENSITY = (BC + "is_golden_ticket_count_valid", CORE + "consensus::blockchain::is_golden_ticket_count_valid_")
    in_validate = 0
    for b in prog.all_bodies():
        if b.unit.crate != "saito_core" or "::tests::" in b.path or "::test::" in b.path or "/test/" in b.file:
            continue
        for s in gate.verdict_sites(b, lambda n: n in DENSITY):
            res.instance(R1)
            in_validate += b is bv
            if b is bv:
                accept, desc = gate.make_accept(bv, tuple0_true=True, effects=("Blockchain::wind_chain", "Blockchain::unwind_chain")), "(true, _) / wind / unwind"
            else:
                accept, desc = accept_for(b)
            name = "::".join(b.path.replace("::{closure#0}", "").split("::")[-2:])
            if s["local"] is None:
                res.add(Finding(R1, "C05.gate|density|%s|unbound" % b.path, "%s does not bind the golden-ticket density verdict to a value that can gate" % name, b.loc(s["bb"])))
                continue
            found, ex = gate.check_gate(b, s, accept, prog.units)
            if found:
                kind, path = sorted(found.items())[0]
                key = "C05.gate|density" if b is bv else "C05.gate|density|%s" % b.path
                res.add(Finding(R1, key, "%s continues (%s) although the golden-ticket density check failed (accept outcomes: %s)" % (name, kind, desc),
                                b.loc(s["bb"]), {"path": describe_path(b, path)}))
            else:
                res.sample({"rule": R1, "site": b.loc(s["bb"]), "consumer": name, "verdict": "a failing density check reaches no accept outcome (%s)" % desc})
    # the check may have been moved, unchanged, into a closure of validate (`new_chain.iter().all(|hash| ..)`) or a private bool helper
    # (`self.new_chain_has_mining_support(new_chain, configs)`): then that closure's combinator / that helper's call is the verdict
    # validate has to honour
    density_family = []
    if not in_validate:
        from .c01 import COMBINATORS as _COMB
        for b in prog.all_bodies():
            if b.is_promoted or "::tests::" in b.path or not list(gate.verdict_sites(b, lambda n: n in DENSITY)):
                continue
            if b.path.startswith(bv.path + "::{closure"):
                sites_ = [s_ for s_ in gate.verdict_sites(bv, lambda n: n in _COMB)]
                kind_ = "closure"
            else:
                sites_ = [s_ for s_ in gate.verdict_sites(bv, lambda n, p_=b.path: n == p_)]
                kind_ = "helper"
            for s_ in sites_:
                density_family.append((b, kind_, s_["bb"]))
                in_validate += 1
                res.instance(R1)
                acc_ = gate.make_accept(bv, tuple0_true=True, effects=("Blockchain::wind_chain", "Blockchain::unwind_chain"))
                found_, _ex = gate.check_gate(bv, s_, acc_, prog.units) if s_["local"] is not None else ({"unbound": []}, None)
                if found_:
                    res.add(Finding(R1, "C05.gate|density", "Blockchain::validate continues although the golden-ticket density check (made in %s) failed" % b.path.replace(CORE, ""), bv.loc(s_["bb"])))
    if not in_validate:
        res.add(Finding(R1, "C05.gate|density-missing", "Blockchain::validate no longer evaluates the golden-ticket density of the candidate chain", bv.loc(0)))

    # R4: the density rule is evaluated at the candidate tip: the window handed to is_golden_ticket_count_valid starts at the
    # parent of new_chain[0] (the chain slices are ordered tip first) and the "has ticket" flag is that block's own
    anchor_bodies = [(bv, None)] + [(b_, (k_, sb_)) for (b_, k_, sb_) in density_family]
    for abody, fam in anchor_bodies:
      chv = Chaser(abody)
      chv_outer = Chaser(bv)
      for bb, t in abody.calls():
        if call_name(t) != BC + "is_golden_ticket_count_valid":
            continue
        res.instance(R4)
        args = [chv.origin(a) for a in t["args"]]
        if fam is not None and fam[0] == "closure":
            # `new_chain.iter().all(|hash| ..)`: every element, if the receiver of the combinator is an un-thinned iterator over new_chain
            it_ = chv_outer.origin(bv.term(fam[1])["args"][0]) if bv.term(fam[1]).get("args") else ("unknown",)
            names_ = [y for y in walk(it_) if (y[0] == "param" and (y[2] or "") == "new_chain") or (y[0] == "field" and y[3] == "new_chain")]
            thin_ = [y for y in walk(it_) if y[0] in ("call", "via") and y[1].rsplit("::", 1)[-1] in ("skip", "take", "step_by", "filter", "skip_while", "take_while", "nth", "last", "filter_map")]
            if names_ and not thin_ and any(has_field(a, "block::Block", "previous_block_hash") for a in args) and any(has_field(a, "block::Block", "has_golden_ticket") for a in args):
                res.sample({"rule": R4, "site": abody.loc(bb), "verdict": "evaluated for every element of new_chain (combinator over the whole slice)"})
            else:
                res.add(Finding(R4, "C05.density-anchor", "Blockchain::validate does not evaluate the golden-ticket density for every block of the candidate chain", abody.loc(bb)))
            continue
        bv_saved = bv
        bv = abody

        def from_tip(e, field):
            ok_field = has_field(e, "block::Block", field)
            idx0 = False
            for x in walk(e):
                if x[0] == "call" and x[1] == "std::ops::Index::index" and len(x[2]) == 2:
                    base, ix = strip(x[2][0]), x[2][1]
                    if base[0] == "param" or (base[0] == "field" and base[3] == "new_chain"):
                        idx0 = idx0 or (ix[0] == "const" and ix[1] == 0)
                if x[0] in ("call", "via") and x[1] in ("std::slice::first", "std::vec::Vec::first"):
                    idx0 = True      # new_chain.first()
                if x[0] in ("call",) and x[1] in ("std::slice::get", "std::vec::Vec::get") and len(x[2]) == 2 and x[2][1][0] == "const" and x[2][1][1] == 0:
                    idx0 = True      # new_chain.get(0)
                if x[0] in ("index", "cindex"):
                    if (x[0] == "cindex" and x[2] == 0) or (x[0] == "index" and x[2][0] == "const" and x[2][1] == 0):
                        idx0 = True
            return ok_field and idx0
        a_hash = next((a for a in args if has_field(a, "block::Block", "previous_block_hash")), None)
        a_flag = next((a for a in args if has_field(a, "block::Block", "has_golden_ticket")), None)
        # every block of new_chain: the call sits in a loop driven by an un-thinned iterator over new_chain
        h4 = bv.innermost_loop_containing([bb])
        over_all = False
        if h4 is not None and a_hash is not None and a_flag is not None:
            for lb in sorted(bv.natural_loop(h4)):
                lt = bv.term(lb)
                if lt["k"] == "call" and call_name(lt) == "std::iter::Iterator::next" and lt["args"]:
                    it = chv.origin(lt["args"][0])
                    names = [y for y in walk(it) if (y[0] == "param" and (y[2] or "") == "new_chain") or (y[0] == "field" and y[3] == "new_chain")]
                    thin = [y for y in walk(it) if y[0] in ("call", "via") and y[1].rsplit("::", 1)[-1] in ("skip", "take", "step_by", "filter", "skip_while", "take_while", "nth", "last", "filter_map")]
                    over_all = over_all or (bool(names) and not thin)
        if over_all:
            res.sample({"rule": R4, "site": bv.loc(bb), "loop": bv.loc(h4), "verdict": "evaluated for every block of new_chain"})
            continue
        if a_hash is not None and a_flag is not None and from_tip(a_hash, "previous_block_hash") and from_tip(a_flag, "has_golden_ticket"):
            res.add(Finding(R4, "C05.density-anchor|tip-only", "Blockchain::validate evaluates the golden-ticket density for new_chain[0] only: a side chain adopted in one step is never "
                            "checked at its earlier blocks, so a stretch of ticket-less blocks is accepted when it arrives as a fork although every node that saw the same blocks "
                            "one by one refused them - two honest nodes end on different chains", bv.loc(bb)))
            continue
        if a_hash is None or a_flag is None or not from_tip(a_hash, "previous_block_hash") or not from_tip(a_flag, "has_golden_ticket"):
            res.add(Finding(R4, "C05.density-anchor", "Blockchain::validate does not evaluate the golden-ticket density at the candidate tip (new_chain[0]): %s"
                            % [show(a)[:70] for a in args[1:3]], bv.loc(bb)))
        else:
            res.sample({"rule": R4, "site": bv.loc(bb), "window_starts_at": show(a_hash)[:80], "verdict": "anchored at new_chain[0]"})

    bv = prog.body(BC + "validate::{closure#0}")
    # R2
    lc = prog.body(BC + "is_new_chain_the_longest_chain")
    if lc is None:
        raise LookupError("is_new_chain_the_longest_chain not found")
    chl = Chaser(lc)

    def is_len_of(e, param):
        x = e
        if x[0] != "len":
            return False
        y = strip(x[1])
        return y[0] == "param" and y[1] == param
    NEW, OLD = 2, 3     # fn(&self, new_chain, old_chain)
    good = set()
    cmps = gate.order_edges(lc, chl, lambda a, b: is_len_of(a, OLD) and is_len_of(b, NEW))
    for c in cmps:
        if c["op"] == "Lt":
            good |= c["true_edges"]
        elif c["op"] == "Ge":
            good |= c["false_edges"]
    empty = gate.bool_switch_edges(lc, chl, lambda e: e[0] == "call" and e[1].endswith("BlockRing::is_empty"))
    len_ret = gate.returned_comparisons(lc, chl, lambda a, b: is_len_of(a, OLD) and is_len_of(b, NEW))
    res.instance(R2, len(cmps) + len(len_ret))
    ex = Explorer(lc)
    found = ex.explore(0, deleted_edges=good | empty["true"], blocked={bb for bb, op in len_ret if op == "Lt"}, accept=gate.make_accept(lc, return_true=True))
    if not cmps and not len_ret:
        res.add(Finding(R2, "C05.strictly-longer|no-comparison", "is_new_chain_the_longest_chain does not compare the two chain lengths", lc.loc(0)))
    elif found:
        kind, path = sorted(found.items())[0]
        res.add(Finding(R2, "C05.strictly-longer|bypass", "is_new_chain_the_longest_chain can return true without establishing len(new_chain) > len(old_chain)",
                        lc.loc(path[-1]), {"path": describe_path(lc, path), "comparisons": ["%s: old %s new" % (lc.loc(c["bb"]), c["op"]) for c in cmps]}))
    else:
        res.sample({"rule": R2, "comparisons": ["%s: len(old) %s len(new)" % (lc.loc(c["bb"]), c["op"]) for c in cmps], "first_block_exit": [lc.loc(x) for x in empty["sites"]],
                    "states": ex.states, "verdict": "true only through a strict-length edge"})
    # burn fee: accumulators fed from Block.burnfee while iterating old_chain / new_chain
    def accumulates_from(local, param):
        for blk in lc.blocks:
            for st in blk["s"]:
                if st[0] == "=" and st[1] == [local, []]:
                    e = chl.rvalue(st[2], 0)
                    if has_field(e, "block::Block", "burnfee") and any(x[0] == "param" and x[1] == param for x in walk(e)):
                        return True
        return False

    def closure_reads_burnfee(e):
        for x in walk(e):
            if x[0] == "agg" and x[1][0] == "closure":
                cb = prog.bodies.get(x[1][1])
                if cb is None:
                    continue
                cch = Chaser(cb)
                for blk in cb.blocks:
                    for st in blk["s"]:
                        if st[0] == "=" and has_field(cch.rvalue(st[2], 0), "block::Block", "burnfee"):
                            return True
        return False

    def is_bf_of(e, param):
        """the cumulative burn fee of the chain segment `param`: an accumulator fed in a loop over it, or `iter().map(..burnfee..).sum()`"""
        x = strip(e)
        if x[0] == "local":
            if accumulates_from(x[1], param):
                return True
            dfs = lc.defs(x[1])
            if len(dfs) == 1 and dfs[0][0] == "call":
                x = ("call", dfs[0][2].get("res") or dfs[0][2].get("callee") or "", [chl.origin(a) for a in dfs[0][2]["args"]], dfs[0][1])
            else:
                return False
        if x[0] in ("call", "via") and x[1].rsplit("::", 1)[-1] in ("sum", "fold"):
            return any(y[0] == "param" and y[1] == param for y in walk(x)) and closure_reads_burnfee(x)
        return False

    def bf_pair(a, b):
        return is_bf_of(a, OLD) and is_bf_of(b, NEW)

    def non_cumulative_updates(local):
        """assignments of a burn-fee accumulator that read Block.burnfee but do not add to the previous value"""
        bad = []
        for bb, blk in enumerate(lc.blocks):
            for st in blk["s"]:
                if st[0] == "=" and st[1] == [local, []]:
                    e = chl.rvalue(st[2], 0)
                    if not has_field(e, "block::Block", "burnfee"):
                        continue
                    adds_self = any(x[0] == "bin" and x[1].startswith("Add") and any(
                        strip(y) == ("local", local, lc.name_of(local)) for y in (x[2], x[3])) for x in walk(e)) or any(
                        x[0] in ("call", "via") and x[1].rsplit("::", 1)[-1] in ("saturating_add", "checked_add", "wrapping_add") for x in walk(e))
                    if not adds_self:
                        bad.append(bb)
        return bad
    for side, par in (("old", OLD), ("new", NEW)):
        for l in range(len(lc.locals)):
            if lc.ty(l)["s"] == "u64" and accumulates_from(l, par) and len(lc.defs(l)) > 1:
                res.instance(R2)
                nb = non_cumulative_updates(l)
                if nb:
                    res.add(Finding(R2, "C05.strictly-longer|burnfee-not-cumulative|%s" % side,
                                    "is_new_chain_the_longest_chain overwrites the %s segment's burn fee with a single block's burn fee instead of adding it: "
                                    "a longer but lighter fork can win" % side, lc.loc(nb[0])))
    bfc = gate.order_edges(lc, chl, bf_pair)
    # `... && old_bf <= new_bf` as the tail expression: the comparison is the returned value itself
    ret_cmp = [(bb, op) for bb, op in gate.returned_comparisons(lc, chl, bf_pair)]
    good_ret_blocks = {bb for bb, op in ret_cmp if op in ("Le", "Lt")}
    res.instance(R2, len(bfc) + len(ret_cmp))
    goodbf = set()
    for c in bfc:
        if c["op"] in ("Le", "Lt"):
            goodbf |= c["true_edges"]
        elif c["op"] in ("Gt", "Ge"):
            goodbf |= c["false_edges"]
    if not bfc and not ret_cmp:
        res.add(Finding(R2, "C05.strictly-longer|no-burnfee-comparison", "is_new_chain_the_longest_chain does not compare the cumulative burn fees of the two segments", lc.loc(0)))
    else:
        ex2 = Explorer(lc)
        f2 = ex2.explore(0, deleted_edges=goodbf | empty["true"], blocked=good_ret_blocks, accept=gate.make_accept(lc, return_true=True))
        if f2:
            kind, path = sorted(f2.items())[0]
            res.add(Finding(R2, "C05.strictly-longer|burnfee-bypass", "is_new_chain_the_longest_chain can return true without old burn fee <= new burn fee", lc.loc(path[-1]), {"path": describe_path(lc, path)}))
        else:
            res.sample({"rule": R2, "burnfee_comparison": ["%s: old_bf %s new_bf" % (lc.loc(c["bb"]), c["op"]) for c in bfc] + ["%s: returns old_bf %s new_bf" % (lc.loc(bb), op) for bb, op in ret_cmp], "verdict": "true only through old_bf <= new_bf"})

    # R3
    gt = [b for b in prog.all_bodies() if b.path.startswith(CORE + "consensus::blockchain::is_golden_ticket_count_valid_") and not b.is_promoted]
    if not gt:
        raise LookupError("is_golden_ticket_count_valid_ not found")
    consts = set()
    literal_cmp = []
    # the rule's arithmetic may live in the walker or in a function it calls (`golden_ticket_count_verdict(found, depth, ..)`)
    gt_family = list(gt)
    for b in gt:
        for _, t in b.calls():
            h = prog.bodies.get(t.get("res") or t.get("callee") or "")
            if h is not None and not h.is_promoted and h.path.startswith(CORE + "consensus::blockchain::") and h not in gt_family and "::tests::" not in h.path:
                gt_family.append(h)
    for b in gt_family:
        for blk in b.blocks:
            for st in blk["s"]:
                if st[0] != "=":
                    continue
                for o in _operands(st[2]):
                    if o[0] == "k" and o[1].get("def"):
                        consts.add(o[1]["def"].rsplit("::", 1)[-1])
            for a in blk["t"].get("args", []):
                if a[0] == "k" and a[1].get("def"):
                    consts.add(a[1]["def"].rsplit("::", 1)[-1])
    for name in ("MIN_GOLDEN_TICKETS_NUMERATOR", "MIN_GOLDEN_TICKETS_DENOMINATOR"):
        res.instance(R3)
        if name not in consts:
            res.add(Finding(R3, "C05.density-constants|%s" % name, "is_golden_ticket_count_valid_ no longer reads the constant %s" % name, gt[0].loc(0)))
    if {"MIN_GOLDEN_TICKETS_NUMERATOR", "MIN_GOLDEN_TICKETS_DENOMINATOR"} <= consts:
        res.sample({"rule": R3, "constants_read": sorted(consts), "values": {"NUMERATOR": prog.const("MIN_GOLDEN_TICKETS_NUMERATOR"), "DENOMINATOR": prog.const("MIN_GOLDEN_TICKETS_DENOMINATOR")}})
    # the found-vs-required comparison gates the false verdict
    for b in gt_family:
        chg = Chaser(b)
        cm = gate.order_edges(b, chg, lambda a, c: a[0] == "local" and c[0] == "local")
        if cm:
            res.sample({"rule": R3, "comparison": ["%s: %s %s %s" % (b.loc(c["bb"]), show(c["a"]), c["op"], show(c["b"])) for c in cm][:3]})
    # R5: "two in every window of six": the helper counts the candidate's own ticket plus those of the ancestors it walks over, so the
    # walk may cover at most DENOMINATOR - 1 ancestors (loop-count algebra: `for _ in a..b` runs b - a times, `while i < K` with i
    # starting at c and stepping by one runs K - c times). One more ancestor and a ticket just outside the window is counted.
    from ..linear import Lin as _Lin, Linearizer as _Lz
    D = prog.const("MIN_GOLDEN_TICKETS_DENOMINATOR")
    # the walk may live in the helper itself or in a function it calls (`count_golden_tickets_before(start, &get_block)`)
    walkers = list(gt)
    for b in gt:
        for _, t in b.calls():
            h = prog.bodies.get(t.get("res") or t.get("callee") or "")
            if h is not None and not h.is_promoted and h.path.startswith(CORE + "consensus::blockchain::") and h not in walkers and "::tests::" not in h.path:
                walkers.append(h)
    for b in walkers:
        chb = Chaser(b)
        lzb = _Lz(b, chb, prog)
        walk_calls = [bb for bb, t in b.calls() if (call_name(t) or "").rsplit("::", 1)[-1] in ("call", "call_mut", "call_once") and "Fn" in (call_name(t) or "")]
        if not walk_calls:
            continue
        h = b.innermost_loop_containing(walk_calls[:1])
        res.instance(R5)
        if h is None or D is None:
            res.add(Finding(R5, "C05.density-window|anchors", "the ancestor walk of the golden-ticket density rule is not a loop around the block lookup (anchor moved?)", b.loc(walk_calls[0])))
            continue
        loop = b.natural_loop(h)
        bound = None
        for bb in sorted(loop):
            t = b.term(bb)
            if t["k"] == "call" and call_name(t) == "std::iter::Iterator::next" and t["args"]:
                it = chb.origin(t["args"][0])
                while it[0] in ("ref", "deref", "via"):
                    it = it[2] if it[0] == "via" else it[1]
                if it[0] == "agg" and it[1][0] == "adt" and it[1][1].endswith("ops::Range") and len(it[2]) == 2:
                    a_, b_ = lzb.lin(it[2][0]), lzb.lin(it[2][1])
                    if a_ is not None and b_ is not None and (b_ - a_).is_const():
                        bound = int((b_ - a_).c)
                elif it[0] == "agg" and it[1][0] == "adt" and it[1][1].endswith("ops::RangeInclusive"):
                    bound = None
        if bound is None:
            for c in gate.order_edges(b, chb, lambda a, k: a[0] == "local" and lzb.lin(k) is not None and lzb.lin(k).is_const()):
                if c["bb"] not in loop or c["op"] not in ("Lt", "Le"):
                    continue
                x = c["a"][1]
                inits, steps_ok = [], True
                for d in b.defs(x):
                    if d[0] != "stmt":
                        steps_ok = False
                        continue
                    e = chb.rvalue(d[3], 0)
                    v = lzb.lin(e)
                    if v is not None and v.is_const():
                        inits.append(int(v.c))
                    else:
                        y = strip(e)
                        if y[0] == "field" and y[1][0] == "bin":
                            y = y[1]
                        if not (y[0] == "bin" and y[1].startswith("Add") and strip(y[2]) [0] == "local" and strip(y[2])[1] == x and y[3][0] == "const" and y[3][1] == 1):
                            steps_ok = False
                if steps_ok and len(inits) == 1:
                    K = int(lzb.lin(c["b"]).c)
                    bound = K - inits[0] + (1 if c["op"] == "Le" else 0)
        if bound is None:
            res.not_decided.append("C05.density-window: iteration bound of the ancestor walk not recognised in %s" % b.path.rsplit("::", 1)[-1])
        elif bound != D - 1:
            res.add(Finding(R5, "C05.density-window|bound", "the density rule walks over up to %d ancestors; with the candidate that is a window of %d blocks, not %d: a ticket just "
                            "outside the six-block window is counted" % (bound, bound + 1, D), b.loc(h)))
        else:
            res.sample({"rule": R5, "loop": b.loc(h), "ancestors": bound, "window": bound + 1})

    # R6: the verdict the gate sees is the walker's. In the walker no path returns a possibly-true value without entering the ancestor
    # walk; in every bool wrapper between the gate and the walker no path does so without the call that leads to the walker
    # ("a parent we already hold was checked before" shortcuts skip the rule for exactly the blocks it is for).
    chain = {}          # body path -> blocks that stand for "the walk happened"
    for b in walkers:
        walk_calls = [bb for bb, t in b.calls() if (call_name(t) or "").rsplit("::", 1)[-1] in ("call", "call_mut", "call_once") and "Fn" in (call_name(t) or "")]
        if walk_calls:
            h = b.innermost_loop_containing(walk_calls[:1])
            if h is not None:
                chain[b.path] = {h}
    for b in gt:
        if b.path not in chain:
            pts = {bb for bb, t in b.calls() if (t.get("res") or t.get("callee") or "") in chain}
            if pts:
                chain[b.path] = pts
    def _generic(pth):
        return pth.split("::<", 1)[0]
    for _ in range(3):
        names = {_generic(c) for c in chain}
        for b in prog.all_bodies():
            if b.is_promoted or b.path in chain or "::tests::" in b.path or "/test/" in b.file or not b.path.startswith("saito_"):
                continue
            if b.ty(0)["s"] != "bool":
                continue
            pts = {bb for bb, t in b.calls() if _generic(t.get("res") or t.get("callee") or "") in names}
            # a wrapper that asks for every element of a collection (`for hash in new_chain { if !self.density(..) { return false } } true`)
            # says true for an empty collection without calling: its "walk point" is the loop, not the call
            pts = {(b.innermost_loop_containing([x]) if b.innermost_loop_containing([x]) is not None else x) for x in pts}
            if pts:
                chain[b.path] = pts
    for pth, pts in sorted(chain.items()):
        b = prog.bodies[pth]
        res.instance(R6)
        f6 = None if 0 in pts else Explorer(b).explore(0, blocked=pts, accept=gate.make_accept(b, return_true=True))
        name = pth.replace(CORE, "").split("::<", 1)[0]
        if f6:
            kind, path = sorted(f6.items())[0]
            res.add(Finding(R6, "C05.density-verdict|%s" % name, "%s can return true without %s: a candidate chain is accepted without its golden-ticket "
                            "window having been counted" % (name, "walking the ancestors" if pth in [w.path for w in walkers] and any(b.term(x)["k"] != "call" or x not in dict(b.calls()) for x in pts) else "calling the density walker"),
                            b.loc(path[-1]), {"path": describe_path(b, path)}))
        else:
            res.sample({"rule": R6, "body": name, "walk_points": [b.loc(x) for x in sorted(pts)], "verdict": "every possibly-true return is behind the walk"})

    # R7: is_new_chain_the_longest_chain answers true without comparing lengths or burn fees while BlockRing::is_empty(). The flag
    # is cleared when the first block is inserted; if anything can set it again (e.g. "the last block of a slot was deleted"), the
    # next block delivered - an equal-length or lighter fork block - takes the tip unexamined.
    from ..paths import const_bool as _cb7
    from ..fields import place_has_field as _phf7
    for b in prog.all_bodies():
        if "::tests::" in b.path or "/test/" in b.file or b.is_promoted or not b.path.startswith("saito_"):
            continue
        for bb, blk in enumerate(b.blocks):
            for st in blk["s"]:
                if st[0] != "=":
                    continue
                val = None
                if _phf7(st[1], "blockring::BlockRing", "empty") is not None and st[1][1] and isinstance(st[1][1][-1], list) and st[1][1][-1][3] == "empty":
                    val = _cb7(st[2][1]) if st[2][0] == "use" else None
                    where = "assigns"
                elif st[2][0] == "agg" and st[2][1][0] == "adt" and st[2][1][1].endswith("blockring::BlockRing") and "empty" in (st[2][1][4] or []):
                    val = _cb7(st[2][2][st[2][1][4].index("empty")])
                    where = "constructs"
                    if b.path.endswith("blockring::BlockRing::new") or "Default" in b.path:
                        res.instance(R7)
                        res.sample({"rule": R7, "site": b.loc(bb), "body": b.path.replace(CORE, ""), "value": val, "verdict": "constructor"})
                        continue
                else:
                    continue
                res.instance(R7)
                if val is False:
                    res.sample({"rule": R7, "site": b.loc(bb), "body": b.path.replace(CORE, ""), "value": False})
                else:
                    res.add(Finding(R7, "C05.first-block-shortcut|%s" % b.path.replace("::{closure#0}", ""), "%s %s BlockRing.empty = %s outside the constructor: while the flag is set, "
                                    "is_new_chain_the_longest_chain accepts the next block as the longest chain without comparing length or burn fee"
                                    % (b.path.replace(CORE, "").replace("::{closure#0}", ""), where, "true" if val else "a computed value"), b.loc(bb)))

    # R8: "strictly longer", "the tip height never decreases" and the whole window arithmetic read block ids as heights. The id is a
    # field of the (signed) block, chosen by its creator: unless Block::validate ties it to the parent's id, a child of block 5 that
    # calls itself block 8 is adopted, the reported height jumps, and a longer honest fork of height 7 is then refused.
    from ._blockvalidate import BlockValidate as _BV8
    from ..expr import has_field as _hf8
    bv8 = _BV8(prog)
    vb8, vch8 = bv8.body, bv8.ch
    idcmp = gate.compare_edges(vb8, vch8, lambda a, b_: bv8.is_self_field(a, "id") and _hf8(b_, "block::Block", "id") and bv8.is_prev(b_))
    no_prev8 = set()
    for bb, blk in enumerate(vb8.blocks):
        t = blk["t"]
        if t["k"] == "switch":
            e = vch8.origin(t["discr"])
            if e[0] == "discr" and bv8.is_prev(e[1]) and _hf8(e[1], "block::Block", "previous_block_hash"):
                no_prev8 |= gate.variant_edges(vb8, bb, 0)
    res.instance(R8)
    if not idcmp["sites"]:
        res.add(Finding(R8, "C05.height-follows-parent|no-test", "Block::validate never compares the block's id with its parent's: a block can claim any height; fork choice, the "
                        "reported tip height and every window computed from ids then follow the claimed number", vb8.loc(0)))
    else:
        path8, states8 = bv8.must_pass(idcmp["eq"], extra_exempt=no_prev8)
        if path8:
            res.add(Finding(R8, "C05.height-follows-parent|bypass", "Block::validate can accept a block whose parent is known without establishing id == parent id + 1",
                            vb8.loc(idcmp["sites"][0]), {"path": bv8.describe(path8)}))
        else:
            res.sample({"rule": R8, "comparison": [vb8.loc(x) for x in idcmp["sites"]], "no_parent_exits": len(no_prev8), "states": states8, "verdict": "must-pass holds"})

    # fork choice finds the shared ancestor by walking back to the first block flagged in_longest_chain: the flags must follow
    # every wind/unwind step (C03.lockstep, cross-listed), or a branch that once lost the tip can never win it back
    from ._include import include
    include(res, prog, tier, extra, "c03", ["C03.lockstep"],
            "the shared ancestor of two chains is the first block flagged in_longest_chain: the flag must move with every wind/unwind step")
    res.explanation = (
        "Decides the gating and 'strictly longer' structure of fork choice: the candidate is treated as the longest chain only behind a true is_new_chain_the_longest_chain, "
        "the reorganisation starts only when that flag is set, a failing golden-ticket density check leads only to (false, _), the length test implies len(new) > len(old) and "
        "the burn-fee test old <= new on every accepting path, and the density rule reads the 2-of-6 constants. It does not decide monotonic tip height, the window arithmetic, "
        "or behaviour under delivery orders.")
    res.assumptions = ["is_new_chain_the_longest_chain(&self, new_chain, old_chain): parameter order"]
    return res


def _operands(rv):
    k = rv[0]
    if k == "use":
        yield rv[1]
    elif k == "bin":
        yield rv[2]
        yield rv[3]
    elif k in ("un", "cast"):
        yield rv[2]
    elif k == "agg":
        for o in rv[2]:
            yield o
