"""C01 (clause) - validation gates acceptance.

Decided: every verdict computed on the acceptance chain is a gate (R1), nothing enters the pool around
validation (R2), and Transaction::validate's accept paths pass the signature check (R3).
Not decided: that the verdict functions are themselves correct (value level).
"""
import re

from .. import gate
from ..callgraph import CallGraph
from ..expr import Chaser, call_name, has_call, has_field, show, strip, walk
from ..fields import FieldAnalysis
from ..paths import Explorer, describe_path
from ..report import Finding, Result

CORE = "saito_core::core::"
VERDICTS = {
    CORE + "consensus::transaction::Transaction::validate",
    CORE + "consensus::transaction::Transaction::validate_against_utxoset",
    CORE + "consensus::transaction::Transaction::validate_routing_path",
    CORE + "consensus::slip::Slip::validate",
    CORE + "consensus::block::Block::validate",
    CORE + "consensus::blockchain::Blockchain::validate",
    CORE + "consensus::blockchain::Blockchain::is_golden_ticket_count_valid",
    CORE + "consensus::blockchain::is_golden_ticket_count_valid_",
    CORE + "consensus::golden_ticket::GoldenTicket::validate",
    CORE + "consensus::golden_ticket::GoldenTicket::validate_hashing_difficulty",
    CORE + "util::crypto::verify",
    CORE + "util::crypto::verify_signature",
}
# accept effects for consumers that do not return the verdict (frozen table, confirmed by reading)
EFFECTS = {
    "Blockchain::wind_chain": ("Block::on_chain_reorganization", "BlockRing::on_chain_reorganization", "Wallet::on_chain_reorganization"),
    "Blockchain::add_block": ("Blockchain::add_block_success",),
    "Mempool::add_transaction_if_validates": ("Mempool::add_transaction",),
    "VerificationThread::verify_tx": ("tokio::sync::mpsc::Sender::send",),
}
ALL_EFFECTS = tuple(sorted({e for v in EFFECTS.values() for e in v}))
# call sites of a verdict function that are not acceptance gates: one symbol, one reason
EXCEPTIONS = {
    CORE + "consensus::block::Block::generate_consensus_values::{closure#0}":
        "Slip::validate selects which expired outputs are rebroadcast (ATR), it accepts nothing (C13)",
    CORE + "mining_thread::MiningThread::mine::{closure#0}":
        "miner tests its own candidate solution before publishing it",
    CORE + "consensus::peers::peer::Peer::handle_handshake_response::{closure#0}":
        "handshake signature: decided by C17",
    "saito_wasm::saitowasm::verify_signature": "JS API wrapper returns the verdict to the caller",
    "saito_wasm::saitowasm::is_valid_public_key": "JS API wrapper returns the verdict to the caller",
}
COMBINATORS = ("std::iter::Iterator::all", "rayon::iter::ParallelIterator::all", "std::iter::Iterator::any",
               "rayon::iter::ParallelIterator::any")


def consumer_name(path):
    p = path.replace("::{closure#0}", "")
    parts = p.split("::")
    return "::".join(parts[-2:])


def accept_for(body):
    """(accept predicate, description) by the consumer's shape"""
    ret = body.ty(0)
    name = consumer_name(body.path)
    eff = EFFECTS.get(name, ())
    if ret["s"] == "bool":
        return gate.make_accept(body, return_true=True, effects=eff), "return true"
    if ret["k"] == "tuple" and ret["s"].startswith("(bool"):
        return gate.make_accept(body, tuple0_true=True, effects=("Blockchain::wind_chain", "Blockchain::unwind_chain")), "return (true, _) / wind / unwind"
    if ret["k"] == "adt" and ret["d"] == "std::option::Option":
        return gate.make_accept(body, return_tags={"Some"}, effects=eff), "return Some"
    if ret["k"] == "adt" and ret["d"].endswith("AddBlockResult"):
        return gate.make_accept(body, return_tags={"BlockAddedSuccessfully"}, effects=eff), "BlockAddedSuccessfully / add_block_success"
    return gate.make_accept(body, effects=eff or ALL_EFFECTS), "effects " + ", ".join(eff or ALL_EFFECTS)


def run(prog, tier, extra=None):
    res = Result("C01", "other")
    R1 = res.rule("C01.gate", "a rejecting verdict reaches no accept outcome of its consumer", floor=18)
    R1b = res.rule("C01.combinator", "the result of all()/any() over a verdict closure gates its consumer", floor=2)
    R2 = res.rule("C01.who-may-insert", "only add_transaction (behind validate) and add_block_transactions_back insert into the pool", floor=2)
    R4 = res.rule("C01.dup-scan", "the in-block double-spend scan checks and records each spent key individually", floor=1)
    R5 = res.rule("C01.scan-exemptions", "only zero-amount inputs (placeholders that are never looked up) are exempt from the in-block double-spend test", floor=0)
    R8 = res.rule("C01.ledger-check-window", "the ledger check is switched on by the presence of the block exactly one configured genesis period behind the tip (or block 1)", floor=2)
    R9 = res.rule("C01.stake-input-lookup", "Blockchain::is_slip_unlocked (the only ledger test of a staking transaction's inputs inside Transaction::validate) answers true only after finding the key in the UTXO set", floor=1)
    R7 = res.rule("C01.utxo-lookup", "validate_against_utxoset skips the per-input ledger lookup only for the Fee transaction", floor=1)
    R6 = res.rule("C01.tx-dup", "Transaction::validate accepts a non-privileged transaction only after a test that can tell a repeated input key", floor=1)
    R10 = res.rule("C01.input-owner", "Transaction::validate accepts a user transaction only after testing that every value-carrying input carries the key the signature was verified against", floor=1)
    R11 = res.rule("C01.input-window", "Block::validate accepts a transaction only after testing that no value-carrying input was created before the block's retention window (own id - genesis_period)", floor=1)
    R3 = res.rule("C01.signature", "Transaction::validate accept paths pass verify_signature(hash_for_signature, signature, from[0].public_key)", floor=1)

    units = prog.units
    verdict_closures = set()
    for b in prog.all_bodies():
        if b.unit.crate != "saito_core" and not b.path.startswith("saito_wasm::saitowasm::"):
            continue
        if ".rs" in b.file and ("/test/" in b.file or b.path.split("::")[-1].startswith("test")):
            continue
        sites = list(gate.verdict_sites(b, lambda n: n in VERDICTS))
        if not sites:
            continue
        if b.path in EXCEPTIONS:
            for s in sites:
                res.sample({"site": b.loc(s["bb"]), "verdict": s["callee"].split("::")[-2:], "exception": EXCEPTIONS[b.path]})
            continue
        if "::tests::" in b.path or "::test::" in b.path:
            continue
        accept, desc = accept_for(b)
        for s in sites:
            res.instance(R1)
            key = "C01.gate|%s|%s" % (b.path, s["callee"])
            short_callee = "::".join(s["callee"].split("::")[-2:])
            if s["local"] is None:
                res.add(Finding(R1, key, "verdict of %s in %s is not bound to a value that can gate" % (short_callee, consumer_name(b.path)), b.loc(s["bb"])))
                continue
            out = gate.check_gate(b, s, accept, units)
            found, ex = out
            if "unsupported-verdict-type" in found:
                res.not_decided.append("verdict type %s at %s" % (s["ty"]["s"], b.loc(s["bb"])))
                continue
            if b.kind == "Closure" and not b.is_coroutine and b.ty(0)["s"] == "bool":
                verdict_closures.add(b.path)
            if found and b.kind == "Closure" and not b.is_coroutine and b.ty(0)["s"] == "bool" and s["ty"]["s"] == "bool":
                # a closure handed to a selecting adaptor may pick out the *rejected* elements (`filter(|tx| !tx.validate(..))` feeding a
                # removal loop): then it returns true only when the verdict rejects - the verdict is used, with the opposite reading
                cons = gate.closure_consumers(prog, b.path)
                if cons and all(c in gate.SELECTING for c in cons):
                    inv, _ = gate.check_gate(b, s, accept, units, verdict_accepts=True)
                    if not inv:
                        res.sample({"site": b.loc(s["bb"]), "consumer": consumer_name(b.path), "verdict": short_callee, "adaptor": cons,
                                    "verdict": "selects exactly the rejected elements (true only when the verdict rejects)"})
                        continue
            if found:
                kind, path = sorted(found.items())[0]
                res.add(Finding(R1, key,
                    "%s: when %s rejects, %s is still reached (%s)" % (consumer_name(b.path), short_callee, kind, desc),
                    b.loc(s["bb"]), {"path": describe_path(b, path), "blocks": path[:60], "accept": sorted(found)}))
            else:
                res.sample({"site": b.loc(s["bb"]), "consumer": consumer_name(b.path), "verdict": short_callee,
                            "accept_outcomes": desc, "verdict": "gates", "states": ex.states})

    # R1b: combinator results over verdict closures are verdicts of the parent
    for b in prog.all_bodies():
        if b.unit.crate != "saito_core":
            continue
        for bb, t in b.calls():
            n = call_name(t)
            if n not in COMBINATORS:
                continue
            ch = Chaser(b)
            closure = None
            for a in t["args"]:
                e = ch.origin(a)
                for x in walk(e):
                    if x[0] == "agg" and x[1][0] == "closure":
                        closure = x[1][1]
            if closure not in verdict_closures:
                continue
            res.instance(R1b)
            d = t["dest"]
            site = {"bb": bb, "callee": n, "local": d[0], "start": t["t"], "kind": "sync", "ty": b.ty(d[0])}
            accept, desc = accept_for(b)
            found, ex = gate.check_gate(b, site, accept, units)
            key = "C01.combinator|%s|%s" % (b.path, closure)
            if found:
                kind, path = sorted(found.items())[0]
                res.add(Finding(R1b, key, "%s: when %s over the per-item verdict closure is false, %s is still reached"
                                % (consumer_name(b.path), n.split("::")[-1], kind), b.loc(bb), {"path": describe_path(b, path)}))
            else:
                res.sample({"site": b.loc(bb), "consumer": consumer_name(b.path), "combinator": n, "closure": closure.split("::", 4)[-1], "verdict": "gates"})

    # R2: who may insert into Mempool.transactions
    fa = FieldAnalysis(prog)
    allowed = {CORE + "consensus::mempool::Mempool::add_transaction::{closure#0}": "the insertion point"}
    for b in prog.all_bodies():
        if "::tests::" in b.path or "/test/" in b.file:
            continue
        for s in fa.sites(b, "mempool::Mempool", "transactions"):
            if s[3] in ("insert", "replace", "unknown") and not (s[0] == "call" and s[3] == "replace" and False):
                res.instance(R2)
                if b.path not in allowed:
                    res.add(Finding(R2, "C01.who-may-insert|%s" % b.path,
                                    "%s inserts into Mempool.transactions outside the validated insertion point" % consumer_name(b.path), b.loc(s[1])))
    cg = CallGraph(prog, [u for u in prog.units if u.crate in ("saito_core", "saito_rust", "saito_spammer")])
    add_tx = CORE + "consensus::mempool::Mempool::add_transaction"
    callers_ok = {
        CORE + "consensus::mempool::Mempool::add_transaction_if_validates": "behind Transaction::validate (R1 instance)",
        CORE + "consensus::blockchain::Blockchain::add_block_transactions_back":
            "re-adds transactions of a failed own block; each passed the filter closure's Transaction::validate (R1 instance)",
    }
    seen_callers = set()
    for e in cg.inn.get(add_tx, []) + cg.inn.get(add_tx + "::{closure#0}", []):
        if e.kind == "creates" or "::tests::" in e.src or "/test/" in cg.bodies[e.src].file:
            continue
        if e.src in (add_tx, add_tx + "::{closure#0}") or e.src in seen_callers:
            continue
        seen_callers.add(e.src)
        res.instance(R2)
        # an allowed caller other than the validating entry point must itself put each transaction through Transaction::validate
        # (in its body or a closure of it: the filter of add_block_transactions_back) - a gate instance of R1 then covers the verdict
        owner = e.src[: -len("::{closure#0}")] if e.src.endswith("::{closure#0}") else e.src
        if owner in callers_ok and not owner.endswith("add_transaction_if_validates"):
            TXV = CORE + "consensus::transaction::Transaction::validate"
            own_bodies = [b2 for p2, b2 in prog.bodies.items() if (p2 == owner or p2.startswith(owner + "::{closure")) and not b2.is_promoted]
            # ... or in a small private helper those call (`.filter(|tx| self.can_return_to_mempool(tx))`)
            helper_bodies = [prog.bodies[h] for b2 in own_bodies for _, t2 in b2.calls()
                             for h in [t2.get("res") or t2.get("callee") or ""] if h in prog.bodies and h.startswith("saito_") and prog.bodies[h].ty(0)["s"] == "bool"]
            validates = any((t2.get("res") or t2.get("callee")) == TXV for b2 in own_bodies + helper_bodies for _, t2 in b2.calls())
            if not validates:
                res.add(Finding(R2, "C01.who-may-insert|unvalidated|%s" % owner, "%s hands transactions to Mempool::add_transaction without putting them through "
                                "Transaction::validate: a transaction that is no longer valid against the ledger enters the pool" % consumer_name(owner), cg.bodies[e.src].loc(e.bb)))
        if not any(e.src in (c, c + "::{closure#0}") for c in callers_ok):
            res.add(Finding(R2, "C01.who-may-insert|caller|%s" % e.src,
                            "%s calls Mempool::add_transaction without going through add_transaction_if_validates" % consumer_name(e.src),
                            cg.bodies[e.src].loc(e.bb)))

    # R4: the in-block double-spend scan examines every spent key individually: each insertion into the per-block
    # "spent in this block" map is either behind the not-contained edge of contains_key(<same key>) or has its
    # previous-value result examined; bulk insertion (extend) cannot see a key repeated inside one transaction
    BV = CORE + "consensus::block::Block::validate::{closure#0}"
    if prog.body(BV) is None:
        raise LookupError("Block::validate not found")

    def keyed_by_utxo_key(b, t):
        """the call is a method of a map / set whose key type is the 59-byte UTXO key (the per-block 'spent here' table)"""
        return any(b.tyix(c)["s"] == "[u8; 59]" or "<[u8; 59]" in b.tyix(c)["s"] for c in t.get("cargs", []))
    # the sweep is wherever Block::validate (its body or a closure inside it, e.g. the one handed to all()) fills that table
    sweep_bodies = [b for b in prog.all_bodies() if (b.path == BV or b.path.startswith(BV + "::{closure")) and not b.is_promoted]
    pending_bulk = []
    n_ins = 0
    sweep = None
    for b in sweep_bodies:
        chb = Chaser(b)
        for bb, t in b.calls():
            n = call_name(t) or ""
            last = n.rsplit("::", 1)[-1]
            if not (n.startswith("std::collections::HashMap::") or n.startswith("ahash::AHashMap::") or n.startswith("std::collections::HashSet::")
                    or n.startswith("ahash::AHashSet::") or n in ("std::iter::Extend::extend",)):
                continue
            if last not in ("insert", "extend", "append", "entry"):
                continue
            if not keyed_by_utxo_key(b, t):
                continue
            sweep = sweep or b
            res.instance(R4)
            n_ins += 1
            key = "C01.dup-scan|%s|%s|%d" % (b.path, last, n_ins)
            if last in ("extend", "append"):
                # bulk fill after all keys of the transaction were looked up: repeats across transactions are still caught; a repeat inside
                # one transaction is not - that case belongs to Transaction::validate's own duplicate test (C01.tx-dup), so the bulk form is
                # accepted exactly when a membership test over the map dominates it and C01.tx-dup holds (resolved below)
                probes = set()
                for pb, pt in b.calls():
                    if (call_name(pt) or "").rsplit("::", 1)[-1] in ("find", "any", "all", "position"):
                        from .c14 import closure_args as _cla
                        for cb_ in _cla(b, pb, prog):
                            if any((call_name(ct) or "").rsplit("::", 1)[-1] in ("contains_key", "contains", "get") for _, ct in cb_.calls()):
                                probes.add(pb)
                if any(b.dominates(pb, bb) for pb in probes):
                    pending_bulk.append((key, last, b, bb))
                else:
                    res.add(Finding(R4, key, "the per-block spent-output map is filled in bulk (%s) without first looking the keys up: an output spent by an earlier transaction "
                                    "of the block is not noticed" % last, b.loc(bb)))
                continue
            if last == "insert":
                k_expr = show(chb.origin(t["args"][1]))
                guard = gate.bool_switch_edges(b, chb, lambda e: e[0] == "call" and e[1].rsplit("::", 1)[-1] == "contains_key"
                                               and len(e[2]) == 2 and show(e[2][1]) == k_expr)
                guarded = bool(guard["sites"]) and bb not in b.reachable(0, deleted_edges=guard["false"])
                d = t["dest"]
                used = False
                if not d[1]:
                    for blk in b.blocks:
                        for st in blk["s"]:
                            if st[0] == "=" and ("[%d, " % d[0]) in repr(st[2]):
                                used = True
                        tt = blk["t"]
                        if any(a[0] in ("cp", "mv") and a[1][0] == d[0] for a in tt.get("args", [])) or \
                                (tt["k"] == "switch" and tt["discr"][0] in ("cp", "mv") and tt["discr"][1][0] == d[0]):
                            used = True
                if guarded or used:
                    res.sample({"rule": R4, "site": b.loc(bb), "verdict": "per key: " + ("behind contains_key(same key) == false" if guarded else "previous value examined")})
                else:
                    res.add(Finding(R4, key, "an output is recorded as spent in this block without checking whether the same key was already recorded", b.loc(bb)))
    if n_ins == 0:
        res.add(Finding(R4, "C01.dup-scan|none", "Block::validate's transaction sweep no longer records the outputs spent in this block: in-block double spends are not detected", prog.body(BV).loc(0)))
        sweep = prog.body(BV)

    # R5: the sweep looks at every value-carrying input: within one iteration over tx.from the only ways around the
    # "already spent in this block?" test are the two documented exemptions - a zero amount and a Bound (NFT marker) slip
    chs = Chaser(sweep)
    loop_heads = []
    for bb, t in sweep.calls():
        if call_name(t) == "std::iter::Iterator::next" and t["args"]:
            e = chs.origin(t["args"][0])
            if has_field(e, "transaction::Transaction", "from"):
                loop_heads.append(bb)
    def asks_the_map(e):
        # the branch condition is computed from a lookup in the per-block table of spent UTXO keys
        for x in walk(e):
            if x[0] == "call" and x[1].rsplit("::", 1)[-1] in ("contains_key", "contains", "insert", "get", "entry") and x[2] and \
                    isinstance(x[3], int) and sweep.term(x[3])["k"] == "call" and keyed_by_utxo_key(sweep, sweep.term(x[3])):
                return True
        return False
    tests = gate.bool_switch_edges(sweep, chs, asks_the_map)
    test_blocks = set(tests["sites"])
    for bb, t in sweep.calls():
        if (call_name(t) or "").rsplit("::", 1)[-1] in ("insert", "entry") and t["args"] and keyed_by_utxo_key(sweep, t):
            test_blocks.add(bb)
    zero = gate.compare_edges(sweep, chs, lambda a, c: has_field(a, "slip::Slip", "amount") and c[0] == "const" and c[1] == 0)
    # an input is looked up in the ledger exactly when its amount is non-zero (Slip::validate): that is the only exemption the
    # property allows. (Until round 7 this rule also let `slip_type == Bound` pass because the code did: the first slip of an NFT
    # group is Bound *and* carries an amount, and two transactions of one block could both spend it.)
    exempt = set(zero["eq"])
    for lh in loop_heads:
        res.instance(R5)
        nxt = sweep.term(lh).get("t")
        # Some-edge: the switch on the Option discriminant that follows the call
        starts = []
        for b2 in sweep.reachable(nxt) if nxt is not None else ():
            pass
        sw = nxt
        hops = 0
        while sw is not None and sweep.term(sw)["k"] != "switch" and hops < 6:
            sw = sweep.term(sw).get("t")
            hops += 1
        if sw is None or sweep.term(sw)["k"] != "switch":
            res.not_decided.append("C01.scan-exemptions: loop shape over tx.from not recognised")
            continue
        some = gate.variant_edges(sweep, sw, 1)
        bad = None
        for (_, tgt) in some:
            p = sweep.find_path(tgt, set(sweep.return_blocks()) | {lh}, deleted_edges=exempt, blocked=test_blocks)
            if p:
                bad = p
        if bad:
            res.add(Finding(R5, "C01.scan-exemptions", "the in-block double-spend sweep can skip a value-carrying input (a reason other than amount == 0): "
                            "two transactions of one block can then spend that output", sweep.loc(bad[0]), {"path": describe_path(sweep, bad)}))
        else:
            res.sample({"rule": R5, "loop": sweep.loc(lh), "exemptions": "amount == 0", "verdict": "every other input reaches the already-spent test"})
    if not loop_heads:
        res.not_decided.append("C01.scan-exemptions: the sweep does not use an explicit loop over tx.from (iterator chain?); exemptions not decided")

    # R3: signature check on every non-privileged accept path of Transaction::validate
    tv = prog.body(CORE + "consensus::transaction::Transaction::validate")
    if tv is None:
        raise LookupError("Transaction::validate not found")
    ch = Chaser(tv)

    def is_sig_check(e):
        if e[0] != "call" or e[1] != CORE + "util::crypto::verify_signature" or len(e[2]) != 3:
            return False
        a0, a1, a2 = e[2]
        return (has_field(a0, "Transaction", "hash_for_signature") and has_field(a1, "Transaction", "signature")
                and has_field(a2, "Slip", "public_key") and has_field(a2, "Transaction", "from"))
    sig = gate.bool_switch_edges(tv, ch, is_sig_check)
    res.instance(R3, len(sig["sites"]))
    # BlockStake is created and signed by its sender like any other user transaction (the property's catalogue names "privileged
    # transaction type used to bypass checks" and "staking on/off"): it is NOT exempt. Fee/ATR/Issuance are derived by the block
    # and compared as a whole (C02 / C13); SPV stubs are refused outright (C06.leaf-from-content).
    PRIVILEGED = {"Fee", "SPV", "ATR", "Issuance"}
    exempt, priv_sites = gate.enum_compare_edges(prog, tv, ch, "transaction::TransactionType", "transaction_type", PRIVILEGED)
    ex = Explorer(tv)
    found = ex.explore(0, deleted_edges=sig["true"] | exempt, accept=gate.make_accept(tv, return_true=True))
    if not sig["sites"]:
        res.add(Finding(R3, "C01.signature|no-site", "Transaction::validate contains no switch on verify_signature(self.hash_for_signature, self.signature, self.from[0].public_key)", tv.loc(0)))
    elif found:
        kind, path = sorted(found.items())[0]
        res.add(Finding(R3, "C01.signature|bypass", "Transaction::validate can return true for a non-privileged transaction type without passing the signature check",
                        tv.loc(path[-1]), {"path": describe_path(tv, path)}))
    else:
        res.sample({"rule": "C01.signature", "verify_switches": [tv.loc(b) for b in sig["sites"]],
                    "privileged_type_exits": sorted(set("%s@%s" % (v, tv.loc(b)) for b, v in priv_sites)),
                    "states": ex.states, "verdict": "every other accept path passes the true edge"})

    # R10: the signature speaks for from[0].public_key only. "Belongs to the key whose signature authorises the transaction" therefore
    # needs a test over *all* inputs that compares their public_key with that key; an input of amount 0 (placeholder, never looked up)
    # is the only exemption. The test is an adaptor over self.from (find/any/all/position) whose closure compares Slip.public_key,
    # or a loop over self.from doing so; every accepting path of a non-exempt type passes it and its "foreign input" outcome rejects.
    from .c14 import closure_args as _cl10
    owner_sites, foreign_edges = set(), set()
    for bb, t in tv.calls():
        n10 = (call_name(t) or "").rsplit("::", 1)[-1]
        if n10 not in ("find", "any", "all", "position", "find_map") or not t["args"] or not has_field(ch.origin(t["args"][0]), "Transaction", "from"):
            continue
        # all inputs: nothing between the vector and the test may drop elements (`.iter().skip(1)` is fine only for the signer's own slot)
        if any(y[0] in ("call", "via") and y[1].rsplit("::", 1)[-1] in ("filter", "filter_map", "take", "take_while", "skip_while", "step_by", "nth", "last") for y in walk(ch.origin(t["args"][0]))):
            continue
        for cb in _cl10(tv, bb, prog):
            cch = Chaser(cb)
            # the comparison may be the closure's result itself (`amount > 0 && key != sender`), not a branch condition
            keycmp = any((call_name(ct) or "") in ("std::cmp::PartialEq::eq", "std::cmp::PartialEq::ne") and any(has_field(cch.origin(a_), "Slip", "public_key") for a_ in ct["args"])
                         for _, ct in cb.calls())
            keycmp = keycmp or any(st[0] == "=" and st[2][0] == "bin" and st[2][1] in ("Eq", "Ne") and has_field(cch.rvalue(st[2], 0), "Slip", "public_key")
                                   for blk in cb.blocks for st in blk["s"])
            if keycmp:
                owner_sites.add(bb)
                d10 = t["dest"][0]
                nxt = t.get("t")
                # where does "a foreign input exists" go?
                for sb, blk in enumerate(tv.blocks):
                    tt = blk["t"]
                    if tt["k"] != "switch":
                        continue
                    e10 = ch.origin(tt["discr"])
                    x10, neg10 = gate.unwrap_not(e10)
                    if x10[0] == "discr" and any(y[0] in ("call", "via") and isinstance(y[-1], int) and y[-1] == bb for y in walk(x10)):
                        # the adaptor's own result, not one thinned again afterwards (`.find(..).filter(..)`, `.and_then(..)`)
                        if any(y[0] in ("call", "via") and "Option" in y[1] and y[1].rsplit("::", 1)[-1] in ("filter", "and", "and_then", "xor", "take_if", "map_or", "is_some_and")
                               for y in walk(x10)):
                            continue
                        foreign_edges |= gate.variant_edges(tv, sb, 1) if n10 in ("find", "position", "find_map") else set()
                bs = gate.bool_switch_edges(tv, ch, lambda e, bb=bb: any(y[0] in ("call", "via") and isinstance(y[-1], int) and y[-1] == bb for y in walk(e)))
                if n10 == "any":
                    foreign_edges |= bs["true"]
                elif n10 == "all":
                    foreign_edges |= bs["false"]
    loop_cmp = gate.compare_edges(tv, ch, lambda a, b_: has_field(a, "Slip", "public_key") and has_field(a, "Transaction", "from")
                                  and has_field(b_, "Slip", "public_key") and has_field(b_, "Transaction", "from"))
    # explicit loop: `for slip in self.from.iter() { if slip.amount == 0 || slip.public_key == sender { continue } .. return false }`.
    # The key compared against may be a local copy of from[0].public_key; the must-pass site is the loop header (an empty input
    # list - refused earlier - would otherwise "bypass" the comparison)
    loop_cmp2 = gate.compare_edges(tv, ch, lambda a, b_: has_field(a, "Slip", "public_key") and has_field(b_, "Slip", "public_key")
                                   and (has_field(a, "Transaction", "from") or has_field(b_, "Transaction", "from")))
    for lc_ in (loop_cmp, loop_cmp2):
        for sb in lc_["sites"]:
            h10 = tv.innermost_loop_containing([sb])
            if h10 is not None:
                owner_sites.add(h10)
                foreign_edges |= {e_ for e_ in lc_["ne"] if e_[0] == sb}
    res.instance(R10)
    if not owner_sites:
        res.add(Finding(R10, "C01.input-owner|no-test", "Transaction::validate verifies the signature against from[0].public_key but never compares the other inputs' public_key with it: "
                        "a transaction signed by its first input's owner can spend anybody's unspent outputs listed after it", tv.loc(sig["sites"][0] if sig["sites"] else 0)))
    else:
        f10 = Explorer(tv).explore(0, deleted_edges=exempt, blocked=owner_sites, accept=gate.make_accept(tv, return_true=True))
        g10 = None
        for (src, tgt) in sorted(foreign_edges):
            g = Explorer(tv).explore(tgt, accept=gate.make_accept(tv, return_true=True))
            if g:
                g10 = (src, sorted(g.items())[0][1])
        if f10:
            kind, path = sorted(f10.items())[0]
            res.add(Finding(R10, "C01.input-owner|bypass", "Transaction::validate can return true for a non-privileged transaction type without the test that every input belongs to the signer",
                            tv.loc(path[-1]), {"path": describe_path(tv, path)}))
        elif g10 or not foreign_edges:
            res.add(Finding(R10, "C01.input-owner|ungated", "Transaction::validate finds an input that does not carry the signer's key and can still return true"
                            if g10 else "the outcome of the input-owner test of Transaction::validate is not branched on", tv.loc(sorted(owner_sites)[0])))
        else:
            res.sample({"rule": R10, "test": [tv.loc(x) for x in sorted(owner_sites)], "foreign_input_edges": len(foreign_edges), "verdict": "must-pass holds and a foreign input rejects"})

    # R11: "is still inside the retention window". Block N sweeps block N - genesis_period - 1: its unspent outputs are rebroadcast (the
    # ATR input consumes the old output) or, when too small to pay the fee, collected into the fees with NO transaction consuming them -
    # the old key stays `true` in the UTXO set until the block is purged a whole period later. The ledger lookup therefore does not
    # enforce expiry; the per-transaction sweep of Block::validate needs its own test of input.block_id against the window.
    wtests = set()       # workspace bodies (roots) that order-compare an input's block_id
    for b_ in prog.all_bodies():
        if b_.is_promoted or "::tests::" in b_.path or not b_.path.startswith(CORE + "consensus::"):
            continue
        chw_ = None
        for blk in b_.blocks:
            for st in blk["s"]:
                if st[0] == "=" and st[2][0] == "bin" and st[2][1] in ("Lt", "Le", "Gt", "Ge"):
                    chw_ = chw_ or Chaser(b_)
                    e_ = chw_.rvalue(st[2], 0)
                    if has_field(e_, "slip::Slip", "block_id") and not has_field(e_, "wallet::", "slips"):
                        wtests.add(b_.path)
    from ._helpers import root as _root11
    wroots = {_root11(p_) for p_ in wtests if "consensus::wallet::" not in p_}
    sweep11 = [b_ for p_, b_ in prog.bodies.items() if p_.startswith(BV + "::{closure") and not b_.is_promoted and b_.ty(0)["s"] == "bool"
               and any((call_name(t_) or "").endswith("Transaction::validate") for _, t_ in b_.calls())]
    res.instance(R11)
    if not sweep11:
        res.not_decided.append("C01.input-window: the per-transaction sweep closure of Block::validate was not found")
    else:
        sw = sweep11[0]
        sites11 = {bb for bb, t_ in sw.calls() if _root11(t_.get("res") or t_.get("callee") or "") in wroots}
        if sw.path in wtests:
            sites11 |= {bb for bb, blk in enumerate(sw.blocks) for st in blk["s"] if st[0] == "=" and st[2][0] == "bin" and st[2][1] in ("Lt", "Le", "Gt", "Ge")
                        and has_field(Chaser(sw).rvalue(st[2], 0), "slip::Slip", "block_id")}
        if not sites11:
            res.add(Finding(R11, "C01.input-window|no-test", "Block::validate never compares an input's block_id with the retention window: an output that block N - genesis_period - 1 "
                            "left behind as 'collected as fees' (too small to rebroadcast) is still `true` in the UTXO set and can be spent again for a whole period", sw.loc(0)))
        else:
            f11 = None if 0 in sites11 else Explorer(sw).explore(0, blocked=sites11, accept=gate.make_accept(sw, return_true=True))
            if f11:
                kind, path = sorted(f11.items())[0]
                res.add(Finding(R11, "C01.input-window|bypass", "the transaction sweep of Block::validate can accept a transaction without the retention-window test of its inputs",
                                sw.loc(path[-1]), {"path": describe_path(sw, path)}))
            else:
                gated = all(not gate.check_gate(sw, s_, gate.make_accept(sw, return_true=True), units)[0]
                            for s_ in gate.verdict_sites(sw, lambda n: _root11(n) in wroots))
                if gated:
                    res.sample({"rule": R11, "tests": [sw.loc(x) for x in sorted(sites11)], "window_test_bodies": sorted(x.replace(CORE, "") for x in wroots), "verdict": "must-pass holds and a false verdict rejects"})
                else:
                    res.add(Finding(R11, "C01.input-window|ungated", "the transaction sweep of Block::validate can accept a transaction although the retention-window test said no", sw.loc(sorted(sites11)[0])))

    # R6: "nor twice inside the transaction": the pool admits a transaction on Transaction::validate's word alone (its own reservation
    # test looks every key up before it inserts any), so validate must contain a test that can distinguish a repeated input key: a
    # comparison of the number of *distinct* keys (a set built from the inputs' utxoset_key) with the number of inputs, or an
    # any()/all() over the inputs whose closure inserts the key into a set and uses the result. Counting a Vec is not such a test.
    SETS = ("HashSet<", "BTreeSet<", "AHashSet<", "HashMap<", "BTreeMap<", "AHashMap<")

    def builds_key_set(e):
        """the expression is (the length of) a set collected from the inputs' utxoset keys"""
        for x in walk(e):
            if x[0] in ("call", "via") and x[1].rsplit("::", 1)[-1] == "collect" and isinstance(x[3], int):
                tt = tv.term(x[3])
                if tt["k"] == "call" and not tt["dest"][1] and any(k in tv.ty(tt["dest"][0])["s"] for k in SETS) and "[u8; 59]" in tv.ty(tt["dest"][0])["s"]:
                    return True
        return False

    def closure_inserts_key(e):
        for x in walk(e):
            if x[0] == "agg" and x[1][0] == "closure":
                cb = prog.bodies.get(x[1][1])
                if cb is None:
                    continue
                for cbb, ct in cb.calls():
                    n = call_name(ct) or ""
                    if n.rsplit("::", 1)[-1] == "insert" and keyed_by_utxo_key(cb, ct):
                        return True
        return False
    good6 = set()
    n6 = 0
    lc = gate.compare_edges(tv, ch, lambda a, c: builds_key_set(a) and has_field(c, "Transaction", "from"))
    good6 |= lc["eq"]
    n6 += len(lc["sites"])
    for nm, edge in (("any", "false"), ("all", "true")):
        sw = gate.bool_switch_edges(tv, ch, lambda e, nm=nm: e[0] == "call" and e[1].rsplit("::", 1)[-1] == nm and has_field(e, "Transaction", "from") and closure_inserts_key(e))
        good6 |= sw[edge]
        n6 += len(sw["sites"])
    # explicit loop form: `for slip in &self.from { if !seen.insert(slip.utxoset_key) { return false } }` - leaving that loop normally
    # means every input key was inserted fresh
    ins = gate.bool_switch_edges(tv, ch, lambda e: e[0] == "call" and e[1].rsplit("::", 1)[-1] == "insert" and isinstance(e[3], int)
                                 and tv.term(e[3])["k"] == "call" and keyed_by_utxo_key(tv, tv.term(e[3])))
    for sb in ins["sites"]:
        h = tv.innermost_loop_containing([sb])
        if h is None:
            continue
        loop = tv.natural_loop(h)
        over_from = any(call_name(tv.term(b2)) == "std::iter::Iterator::next" and tv.term(b2)["args"] and has_field(ch.origin(tv.term(b2)["args"][0]), "Transaction", "from")
                        for b2 in loop if tv.term(b2)["k"] == "call")
        dup_rejects = all(not Explorer(tv).explore(tgt, accept=gate.make_accept(tv, return_true=True), blocked={h}) for (_, tgt) in ins["false"] if _ == sb)
        if over_from and dup_rejects:
            n6 += 1
            for b2 in loop:
                for s2 in tv.succ(b2):
                    if s2 not in loop:
                        good6.add((b2, s2))
    res.instance(R6, max(n6, 1))
    ex6 = Explorer(tv)
    found6 = ex6.explore(0, deleted_edges=good6 | exempt, accept=gate.make_accept(tv, return_true=True))
    if found6:
        kind, path = sorted(found6.items())[0]
        res.add(Finding(R6, "C01.tx-dup|%s" % ("no-test" if not good6 else "bypass"),
                        "Transaction::validate can return true for a non-privileged transaction without any test that distinguishes a repeated input key%s: a transaction "
                        "listing one unspent output twice is admitted to the pool with twice the input value"
                        % (" (its duplicate-input test counts a Vec, which always has as many elements as there are inputs)" if not good6 else ""),
                        tv.loc(path[-1]), {"path": describe_path(tv, path)}))
    else:
        res.sample({"rule": R6, "tests": n6, "states": ex6.states, "verdict": "every non-privileged accept path passes a distinct-key test"})

    # R7: "refers to an output ... not spent before": every input of every transaction is looked up in the UTXO set
    # (Slip::validate) except for the Fee transaction, whose inputs are bookkeeping records compared as a whole with the derived one
    # (C02.payout-exact). In particular a rebroadcast's inputs are looked up: the commitment hash does not cover block id / ordinal.
    vu = prog.body(CORE + "consensus::transaction::Transaction::validate_against_utxoset")
    if vu is None:
        raise LookupError("Transaction::validate_against_utxoset not found")
    chu = Chaser(vu)
    res.instance(R7)
    fee_only, fee_sites = gate.enum_compare_edges(prog, vu, chu, "transaction::TransactionType", "transaction_type", {"Fee"})

    def is_lookup(e):
        if e[0] != "call":
            return False
        last = e[1].rsplit("::", 1)[-1]
        if last in ("all",) and has_field(e, "Transaction", "from"):
            for x in walk(e):
                if x[0] == "agg" and x[1][0] == "closure":
                    cb = prog.bodies.get(x[1][1])
                    if cb is not None and any((call_name(t) or "").endswith("slip::Slip::validate") for _, t in cb.calls()):
                        return True
        return False
    look = gate.bool_switch_edges(vu, chu, is_lookup)
    ret_lookup = False
    for d in vu.defs(0):
        x = chu.rvalue(d[3], 0) if d[0] == "stmt" else chu.call(d[2], d[1], 0)
        if is_lookup(x):
            ret_lookup = True       # the lookup's verdict is the function's result
    blocked7 = {d[1] for d in vu.defs(0) if is_lookup(chu.rvalue(d[3], 0) if d[0] == "stmt" else chu.call(d[2], d[1], 0))}
    found7 = Explorer(vu).explore(0, deleted_edges=fee_only | look["true"], blocked=blocked7, accept=gate.make_accept(vu, return_true=True))
    if not look["sites"] and not ret_lookup:
        res.add(Finding(R7, "C01.utxo-lookup|no-lookup", "validate_against_utxoset no longer checks every input with Slip::validate", vu.loc(0)))
    elif found7:
        kind, path = sorted(found7.items())[0]
        res.add(Finding(R7, "C01.utxo-lookup|bypass", "validate_against_utxoset can return true without looking the inputs up for a transaction type other than Fee: such a "
                        "transaction can name an input that does not exist (or leave the real one spendable)", vu.loc(path[-1]), {"path": describe_path(vu, path)}))
    else:
        res.sample({"rule": R7, "exempt": [v for _, v in fee_sites], "verdict": "every other type reaches the per-input Slip::validate"})

    # R8: Block::validate is asked to check inputs against the ledger only when has_total_supply_loaded says the node holds the
    # whole spendable history: block 1, or the longest-chain block exactly one genesis period behind the tip. The block ring keeps
    # two genesis periods, so a test for a block further back never becomes true on a node that joined mid-chain and its double-
    # spend check stays off for good; a test for a nearer block turns it on against an incomplete ledger.
    from ..linear import Linearizer as _Lz8
    hs = prog.body(CORE + "consensus::blockchain::Blockchain::has_total_supply_loaded")
    if hs is None:
        raise LookupError("Blockchain::has_total_supply_loaded not found")
    ch8 = Chaser(hs)
    lz8 = _Lz8(hs, ch8, prog)
    n_window = 0
    for bb, t in hs.calls():
        if not (call_name(t) or "").endswith("BlockRing::get_longest_chain_block_hash_at_block_id") or len(t["args"]) < 2:
            continue
        arg8 = ch8.origin(t["args"][1])
        # `latest.checked_sub(gp).filter(..)` matched as Some(id): the looked-up id is the payload of the checked difference
        for _ in range(4):
            x8 = strip(arg8)
            if x8[0] == "field" and x8[1][0] == "downcast" and x8[1][2] == "Some":
                inner = strip(x8[1][1])
                while inner[0] in ("call", "via") and inner[1].rsplit("::", 1)[-1] in ("filter", "inspect") and "Option" in inner[1]:
                    inner = strip(inner[2][0] if inner[0] == "call" else inner[2])
                if inner[0] == "call" and inner[1].rsplit("::", 1)[-1] == "checked_sub" and len(inner[2]) == 2:
                    arg8 = ("bin", "Sub", inner[2][0], inner[2][1])
                    continue
            break
        v = lz8.lin(arg8)
        if v is not None and v.is_const():
            continue
        res.instance(R8)
        ok = False
        if v is not None and int(v.c) == v.c and 0 <= v.c <= 1 and len(v.t) == 2:
            co = {k: c for k, c in v.t.items()}
            par = [k for k in co if k[0] == "L" and k[1] == 2]
            tip = [k for k in co if k[0] == "O" and "get_latest_block_id" in k[1]]
            ok = len(par) == 1 and len(tip) == 1 and co[par[0]] == -1 and co[tip[0]] == 1
        if ok:
            n_window += 1
            res.sample({"rule": R8, "site": hs.loc(bb), "looked_up": str(v)})
        else:
            res.add(Finding(R8, "C01.ledger-check-window|offset", "has_total_supply_loaded looks for the longest-chain block at `%s`, not at tip - genesis_period: the ledger check of "
                            "Block::validate is switched on for the wrong set of nodes (never, for a block beyond what the ring keeps)" % (str(v) if v is not None else show(ch8.origin(t["args"][1]))[:60]), hs.loc(bb)))
    if n_window == 0 and not any(f.rule == R8 for f in res.findings):
        res.add(Finding(R8, "C01.ledger-check-window|anchors", "has_total_supply_loaded no longer looks up the block one genesis period behind the tip", hs.loc(0)))
    for cb in prog.all_bodies():
        if "::tests::" in cb.path or cb.is_promoted:
            continue
        chc = None
        for bb, t in cb.calls():
            if (t.get("res") or t.get("callee") or "") != hs.path:
                continue
            chc = chc or Chaser(cb)
            res.instance(R8)
            e = chc.origin(t["args"][1])
            if has_field(e, None, "genesis_period"):
                res.sample({"rule": R8, "caller": consumer_name(cb.path), "site": cb.loc(bb), "argument": "the configured genesis_period"})
            else:
                res.add(Finding(R8, "C01.ledger-check-window|argument|%s" % cb.path, "%s asks has_total_supply_loaded about `%s`, not the configured genesis period" % (consumer_name(cb.path), show(e)[:60]), cb.loc(bb)))

    # R9: the BlockStake branch of Transaction::validate relies on Blockchain::is_slip_unlocked for "exists and is unspent";
    # whatever else that function decides (lock period), it must not say yes before it has looked the key up.
    isu = prog.body(CORE + "consensus::blockchain::Blockchain::is_slip_unlocked")
    if isu is None:
        raise LookupError("Blockchain::is_slip_unlocked not found")
    ch9 = Chaser(isu)
    lookups = {bb for bb, t in isu.calls() if (call_name(t) or "").rsplit("::", 1)[-1] in ("get", "contains_key", "get_key_value") and t["args"]
               and has_field(ch9.origin(t["args"][0]), "blockchain::Blockchain", "utxoset")}
    res.instance(R9)
    if not lookups:
        res.add(Finding(R9, "C01.stake-input-lookup|no-lookup", "Blockchain::is_slip_unlocked no longer looks the key up in the UTXO set", isu.loc(0)))
    else:
        f9 = None if 0 in lookups else Explorer(isu).explore(0, blocked=lookups, accept=gate.make_accept(isu, return_true=True))
        if f9:
            kind, path = sorted(f9.items())[0]
            res.add(Finding(R9, "C01.stake-input-lookup|bypass", "Blockchain::is_slip_unlocked can answer true without having looked the key up in the UTXO set: a staking transaction "
                            "can name an input that was never created or is already spent", isu.loc(path[-1]), {"path": describe_path(isu, path)}))
        else:
            # the lookup's negative results must lead to false
            absent = set()
            for bb, blk in enumerate(isu.blocks):
                t = blk["t"]
                if t["k"] == "switch":
                    e = ch9.origin(t["discr"])
                    if e[0] == "discr" and has_field(e[1], "blockchain::Blockchain", "utxoset"):
                        absent |= gate.variant_edges(isu, bb, 0)
            isn9 = gate.bool_switch_edges(isu, ch9, lambda e: e[0] == "call" and e[1].rsplit("::", 1)[-1] == "is_none" and has_field(e, "blockchain::Blockchain", "utxoset"))
            absent |= isn9["true"]
            bad9 = None
            for (src, tgt) in sorted(absent):
                g9 = Explorer(isu).explore(tgt, accept=gate.make_accept(isu, return_true=True))
                if g9:
                    bad9 = src
            if bad9 is not None:
                res.add(Finding(R9, "C01.stake-input-lookup|absent-accepted", "Blockchain::is_slip_unlocked can answer true for a key that is not in the UTXO set", isu.loc(bad9)))
            else:
                res.sample({"rule": R9, "lookups": [isu.loc(x) for x in sorted(lookups)], "absent_edges": len(absent), "verdict": "true only after the lookup; an absent key leads to false"})

    for key, last, b_, bb_ in pending_bulk:
        if any(f.rule == R6 for f in res.findings):
            res.add(Finding(R4, key, "the per-block spent-output map is filled in bulk (%s) and Transaction::validate has no sound duplicate-input test: an output listed twice inside "
                            "one transaction is never compared with itself, so it is counted twice as input" % last, b_.loc(bb_)))
        else:
            res.sample({"rule": R4, "site": b_.loc(bb_), "verdict": "bulk fill after a lookup of every key; repeats inside one transaction are refused by Transaction::validate (C01.tx-dup)"})
    # the ledger C01's verdicts are evaluated against is the one wind/unwind maintain, and the only un-signed spends the
    # validator admits are the rebroadcasts it re-derives: both mechanisms are decided by the C03 / C13 rules, cross-listed here
    from ._include import include
    include(res, prog, tier, extra, "c03", ["C03.lockstep", "C03.full-before-apply", "C03.order", "C03.ledger-owner", "C03.marker-by-hash", "C03.tx-apply-total"],
            "inputs are checked against the UTXO set of that same chain only if wind/unwind keep the set in step with the chain")
    include(res, prog, tier, extra, "c13", ["C13.derive"],
            "an ATR-typed transaction skips the signature and input checks, so every one must be matched against the derived rebroadcast commitment")
    res.explanation = (
        "Decides the clause 'validation gates acceptance': for each call site of the verdict family on the acceptance chain, "
        "a path exploration from the point where the verdict is known to reject (exact on the boolean lowering of &&, ||, ! and early returns) "
        "must reach no accept outcome of the consumer (return true / Some / BlockAddedSuccessfully, or the consumer's accept effect). "
        "It does not decide that the verdict functions compute the right answer (ownership of every input, window, double spends): those are value-level.")
    res.assumptions = ["verdict family, accept effects and exception table are frozen in analysis/rules/c01.py (each confirmed by reading)",
                       "unwind (panic) edges are not accept outcomes"]
    return res
