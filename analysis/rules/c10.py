"""C10 (clause) - decoders are total: no slice/index/unwrap/assert on peer or disk bytes can panic.

Obligations (per decoder body, callees that receive input bytes analysed in the caller's context):
  slice   buf[a..b] / buf[..b] / buf[a..] / buf[i] on an input-derived buffer     need 0 <= a <= b <= len(buf), i < len(buf)
  bounds  MIR Assert(BoundsCheck)                                                  need index < len
  unwrap  Option/Result::unwrap|expect                                             safe only for try_into of a constant-width slice into [T; N]
  panic   a call into core::panicking (assert!/assert_eq!/panic!/unreachable!)     never discharged when reachable
  alloc   Vec::with_capacity / reserve / vec![x; n] sized by a decoded value        need n <= k * len(input) for a small k
Discharge: linear facts from dominating length tests (analysis/linear.py).  A decoder that cannot express failure
(returns Self) and has undischarged obligations is reported once (C10.signature).
Arithmetic-overflow asserts are out of scope (64-bit usize assumption).
"""
from ..expr import Chaser, call_name, show, strip, walk
from ..linear import Lin, Linearizer, array_len, prove, range_of
from ..report import CheckError, Finding, Result

CORE = "saito_core::core::"
ENTRY = [
    "msg::message::Message::deserialize",
    "consensus::block::Block::deserialize_from_net",
    "consensus::transaction::Transaction::deserialize_from_net",
    "consensus::slip::Slip::deserialize_from_net",
    "consensus::hop::Hop::deserialize_from_net",
    "consensus::golden_ticket::GoldenTicket::deserialize_from_net",
    "msg::handshake::HandshakeChallenge::deserialize",
    "msg::handshake::HandshakeResponse::deserialize",
    "msg::block_request::BlockchainRequest::deserialize",
    "process::version::Version::deserialize",
    "msg::ghost_chain_sync::GhostChainSync::deserialize",
    "msg::api_message::ApiMessage::deserialize",
    "consensus::peers::peer_service::PeerService::deserialize_services",
    "consensus::wallet::Wallet::deserialize_from_disk",
    "consensus::slip::Slip::parse_slip_from_utxokey",
]
BYTE_BUF = ("&[u8]", "&std::vec::Vec<u8>", "std::vec::Vec<u8>", "&mut [u8]", "&mut std::vec::Vec<u8>",
            "std::string::String", "&std::string::String", "&str")
SLICE_SELF = ("[", "std::vec::Vec<", "&[", "&std::vec::Vec<", "str", "&str", "std::string::String", "&std::string::String")


class StableChaser(Chaser):
    """Chaser that does not inline a temporary whose definition mentions a re-assignable variable:
    such a temporary keeps the value the variable had at its definition, so it must stay an atom."""

    def local(self, l, depth=0):
        if l in self._memo:
            return self._memo[l]
        r = super().local(l, depth)
        defs = self.body.defs(l)
        # results of calls stay readable: they are keyed by their call site and every fact about them is killed
        # when the call re-executes or one of the variables it read is re-assigned
        is_addr = len(defs) == 1 and defs[0][0] == "stmt" and defs[0][3][0] in ("ref", "raw")   # &x aliases x, no snapshot
        if r[0] not in ("param", "local") and not (len(defs) == 1 and defs[0][0] == "call") and not is_addr:
            for x in walk(r):
                if x[0] == "local" and x[1] != l:
                    r = ("local", l, self.body.name_of(l))
                    self._memo[l] = r
                    self.unstable.add(l)
                    break
        return r

    def __init__(self, body):
        super().__init__(body)
        self.unstable = set()


class VFact:
    """the Option/Result value of an expression is known to be a given variant"""
    __slots__ = ("k", "variant", "deps")

    def __init__(self, k, variant, deps):
        self.k, self.variant, self.deps = k, variant, frozenset(deps)

    def key(self):
        return ("V", self.k, self.variant)

    def is_const(self):
        return False


class CFact:
    """`x == pol  =>  f`  for a bool variable x assigned in several places (the lowering of `let x = a && b;` / `a || b`)"""
    __slots__ = ("x", "f", "deps", "pol")

    def __init__(self, x, f, pol=True):
        self.x, self.f, self.pol = x, f, pol
        self.deps = frozenset(f.deps) | {("L", x)}

    def key(self):
        return ("CF", self.x, self.pol, self.f.key())

    def is_const(self):
        return False


class CFalse:
    """x is `not pol` on every path reaching here (so `x == pol => anything`); CFalse(x) = "x is false", CFalse(x, False) = "x is true" """
    __slots__ = ("x", "deps", "pol")

    def __init__(self, x, pol=True):
        self.x, self.pol = x, pol
        self.deps = frozenset({("L", x)})

    def key(self):
        return ("CFalse", self.x, self.pol)

    def is_const(self):
        return False


def meet(A, B):
    out = {}
    for k, f in A.items():
        if k in B or (isinstance(f, CFact) and ("CFalse", f.x, f.pol) in B):
            out[k] = f
    for k, f in B.items():
        if k not in out and isinstance(f, CFact) and ("CFalse", f.x, f.pol) in A:
            out[k] = f
    return out


def ext_atom(k):
    return ("ext", k)


def ext_lin(f):
    """the caller's value, frozen for the duration of the call: atoms renamed, no dependencies"""
    return Lin(f.c, {ext_atom(k): v for k, v in f.t.items()})


def eliminate(facts, allowed, max_atoms=12, max_pairs=400):
    """Fourier-Motzkin projection of linear facts (each >= 0) onto the atoms accepted by `allowed`"""
    cur = [f for f in facts if isinstance(f, Lin)]
    bad = sorted({k for f in cur for k in f.t if not allowed(k)}, key=repr)
    if len(bad) > max_atoms:
        return [f for f in cur if all(allowed(k) for k in f.t)]
    for atom in bad:
        pos = [f for f in cur if f.t.get(atom, 0) > 0]
        neg = [f for f in cur if f.t.get(atom, 0) < 0]
        rest = [f for f in cur if f.t.get(atom, 0) == 0]
        if len(pos) * len(neg) > max_pairs:
            cur = rest
            continue
        new = {}
        for f in rest:
            new[f.key()] = f
        for a in pos:
            for b in neg:
                c = a.scale(-b.t[atom]) + b.scale(a.t[atom])
                if not c.nonneg():
                    new[c.key()] = c
        cur = list(new.values())
    return [f for f in cur if all(allowed(k) for k in f.t)]


# pure accessors: `p.get_public_key()` reads `p.public_key`
ACCESSORS = {
    "saito_core::core::consensus::peers::peer::Peer::get_public_key": ("saito_core::core::consensus::peers::peer::Peer", "public_key"),
}


def vkey(lz, e):
    x = e
    while x[0] in ("ref", "deref"):
        x = x[1]
    if x[0] == "call" and x[1] in ACCESSORS and x[2]:
        adt, f = ACCESSORS[x[1]]
        recv = x[2][0]
        while recv[0] in ("ref", "deref"):
            recv = recv[1]
        x = ("field", ("deref", recv), adt, f)
    elif x[0] == "field" and x[1][0] != "deref" and x[1][0] in ("param", "local"):
        x = ("field", ("deref", x[1]), x[2], x[3])
    o = lz.opaque(x)
    (k, _), = o.t.items()
    return k, o.deps


def variant_of_assignment(body, ch, lz, st):
    """`x.f = Some(..)` / `= None` / `= Ok(..)`: the field is known to hold that variant afterwards"""
    e = ch.rvalue(st[2], 0)
    tag = None
    if e[0] == "agg" and e[1][0] == "adt" and e[1][1] in ("std::option::Option", "std::result::Result"):
        tag = e[1][2]
    if tag is None:
        return None
    pe = ch.place(st[1])
    k, deps = vkey(lz, pe)
    return VFact(k, tag, set(deps) - {("L", st[1][0])})


class DecoderAnalysis:
    def __init__(self, prog):
        self.prog = prog
        self.memo = {}
        self.memo_stats = {}
        self.memo_all = {}
        self._summaries = {}
        self.stack = []
        self.ctx_targets = set()     # bodies that are always analysed in their callers' contexts (C11.peer-indexing)

    def analyze(self, body, entry=(), foreign=()):
        """entry: tuple of (param local, lo, hi) constant bounds on a buffer parameter's length; foreign: facts of the
        caller at the call site (atoms renamed `ext`) plus the equalities binding this body's parameters to the caller's
        argument values.  Returns list of undischarged obligations: dict(body, bb, kind, desc, loc)."""
        fkey = tuple(sorted(repr(f.key()) for f in foreign))
        key = (body.path, tuple(entry), fkey)
        if key in self.memo:
            return self.memo[key]
        if body.path in self.stack or len(self.stack) > 6:
            return []
        self.stack.append(body.path)
        self.memo[key] = []
        out, stats = self._run(body, entry, foreign)
        self.memo[key] = out
        self.memo_stats[key] = stats
        self.memo_all[key] = self.last_all
        self.stack.pop()
        self.last_stats = stats
        return out

    # ------------------------------------------------------------------
    def summary(self, callee):
        """{tag: [Lin over the callee's parameter atoms]} - facts that hold whenever the callee returns Ok / Some / true.
        Lets a length test that was moved into a helper (`ensure_len(buf)?`, `if !has_room(buf, i) { return }`) keep
        discharging the caller's obligations."""
        if callee.path in self._summaries:
            return self._summaries[callee.path]
        self._summaries[callee.path] = {}
        if callee.path in self.stack or len(self.stack) > 6 or callee.nblocks > 400:
            return {}
        ret = callee.ty(0)
        if not (ret["s"] == "bool" or (ret["k"] == "adt" and ret["d"] in ("std::result::Result", "std::option::Option"))):
            return {}
        self.stack.append(callee.path)
        try:
            exits = []
            self._run(callee, (), (), exits=exits)
        finally:
            self.stack.pop()
        argc = callee.argc
        frozen = {p for p in range(1, argc + 1) if not callee.defs(p) and not callee.partial_defs(p)}

        def allowed(k):
            if k[0] == "len" and isinstance(k[1], tuple) and k[1][0] == "L":
                return k[1][1] in frozen
            return k[0] == "L" and k[1] in frozen
        out = {}
        for tag in ("Ok", "Some", "true"):
            if (tag == "true") != (ret["s"] == "bool") or (tag != "true" and {"Ok": "std::result::Result", "Some": "std::option::Option"}[tag] != ret.get("d")):
                continue
            sites = [fs for (tg, fs) in exits if tg in (tag, "any")]
            if not sites:
                continue
            proj = None
            for fs in sites:
                keep = {f.key(): f for f in eliminate(fs, allowed) if not f.deps}
                proj = keep if proj is None else {k: f for k, f in proj.items() if k in keep}
            if proj:
                out[tag] = list(proj.values())
        self._summaries[callee.path] = out
        return out

    def summary_facts(self, lz, callexpr, tag):
        """facts of the caller implied by `callexpr` having returned `tag` (parameters replaced by the argument values)"""
        callee = self.prog.bodies.get(callexpr[1])
        if callee is None or callee.is_promoted or callee.is_coroutine:
            return []
        sm = self.summary(callee).get(tag)
        if not sm:
            return []
        args = callexpr[2]
        out = []
        for f in sm:
            acc = Lin(f.c)
            ok = True
            for k, v in f.t.items():
                p = k[1][1] if k[0] == "len" else k[1]
                if p - 1 >= len(args):
                    ok = False
                    break
                val = lz.length(args[p - 1]) if k[0] == "len" else lz.lin(args[p - 1])
                if val is None:
                    ok = False
                    break
                acc = acc + val.scale(v)
            if ok and not acc.is_const():
                acc = Lin(acc.c, acc.t, set(acc.deps) | {("C", callexpr[3])})
                out.append(acc)
        return out

    # ------------------------------------------------------------------
    def _run(self, body, entry, foreign=(), exits=None):
        ch = StableChaser(body)
        lz = Linearizer(body, ch, self.prog)
        nb = body.nblocks
        entry_facts = {}
        for (pl, lo, hi) in entry:
            nm = body.name_of(pl)
            L = Lin(0, {("len", ("L", pl, nm)): 1})
            fs = [L - Lin(lo)] + ([Lin(hi) - L] if hi is not None else [])
            for f in fs:
                if not f.is_const():
                    entry_facts[f.key()] = f
        for f in foreign:
            if not f.is_const():
                entry_facts[f.key()] = f
        IN = [None] * nb
        IN[0] = entry_facts
        flags = {l for l in range(body.argc + 1, len(body.locals)) if body.ty(l)["s"] == "bool" and len(body.defs(l)) > 1
                 and not body.partial_defs(l)}
        obligations = {}
        order = body.rpo()
        # force chaser to classify every local once (fills ch.unstable)
        for l in range(len(body.locals)):
            ch.local(l)

        def kill(facts, dep):
            return {k: f for k, f in facts.items() if dep not in f.deps}

        def add(facts, f):
            if f is not None and not f.is_const():
                facts[f.key()] = f
            return facts

        def cmp_facts(e):
            """(facts when e is true, facts when e is false) for a comparison expression, else None"""
            op = a = b = None
            if e[0] == "bin" and e[1] in ("Lt", "Le", "Gt", "Ge", "Eq", "Ne"):
                op, a, b = e[1], lz.lin(e[2]), lz.lin(e[3])
            elif e[0] == "call" and e[1] in ("std::cmp::PartialEq::eq", "std::cmp::PartialEq::ne") and len(e[2]) == 2:
                op, a, b = ("Eq" if e[1].endswith("eq") else "Ne"), lz.lin(e[2][0]), lz.lin(e[2][1])
            if op is None or a is None or b is None:
                return None
            one_ = Lin(1)
            T = {"Lt": [b - a - one_], "Le": [b - a], "Gt": [a - b - one_], "Ge": [a - b], "Eq": [a - b, b - a], "Ne": []}
            F = {"Lt": [a - b], "Le": [a - b - one_], "Gt": [b - a], "Ge": [b - a - one_], "Eq": [], "Ne": [a - b, b - a]}
            return T[op], F[op]

        def edge_facts(bb, facts):
            """{succ: [facts]} learned on the edges out of bb"""
            t = body.term(bb)
            res = {}
            if t["k"] != "switch":
                return res
            e = self._expand_here(body, ch, ch.origin(t["discr"]), bb)
            neg = False
            while e[0] == "un" and e[1] == "Not":
                neg = not neg
                e = self._expand_here(body, ch, e[2], bb)
            zero = [tgt for v, tgt in t["targets"] if v == 0]
            one = [tgt for v, tgt in t["targets"] if v == 1]
            other = t["otherwise"]
            if body.tyix(t["dty"])["s"] == "bool":
                false_t = zero if zero else ([other] if one else [])
                true_t = one if one else ([other] if zero else [])
                if neg:
                    false_t, true_t = true_t, false_t
                if e[0] == "local" and e[1] in flags:
                    # `let ok = a && b; ... if ok {`: what held where ok was given a value that can be true
                    for f in facts.values():
                        if isinstance(f, CFact) and f.x == e[1]:
                            for tgt in (true_t if f.pol else false_t):
                                res.setdefault(tgt, []).append(f.f)
                    return res
                if e[0] == "call" and e[1] in ("std::result::Result::is_err", "std::result::Result::is_ok",
                                               "std::option::Option::is_some", "std::option::Option::is_none") and e[2]:
                    k, deps = vkey(lz, e[2][0])
                    tv, fv = {"is_err": ("Err", "Ok"), "is_ok": ("Ok", "Err"), "is_some": ("Some", "None"), "is_none": ("None", "Some")}[e[1].rsplit("::", 1)[-1]]
                    for tgt in true_t:
                        res.setdefault(tgt, []).append(VFact(k, tv, deps))
                    for tgt in false_t:
                        res.setdefault(tgt, []).append(VFact(k, fv, deps))
                    inner = strip(e[2][0])
                    if inner[0] == "call" and inner[1] in self.prog.bodies:
                        good_t = true_t if tv in ("Ok", "Some") else false_t
                        for f in self.summary_facts(lz, inner, tv if tv in ("Ok", "Some") else fv):
                            for tgt in good_t:
                                res.setdefault(tgt, []).append(f)
                    return res
                if e[0] == "call" and e[1].rsplit("::", 1)[-1] == "is_empty" and e[2]:
                    L = lz.length(e[2][0])
                    if L is not None:
                        for tgt in false_t:
                            res.setdefault(tgt, []).append(L - Lin(1))
                    return res
                if e[0] == "call" and e[1] in self.prog.bodies:
                    # a workspace predicate: what its `true` result implies about the arguments
                    for f in self.summary_facts(lz, e, "true"):
                        for tgt in true_t:
                            res.setdefault(tgt, []).append(f)
                    return res
                tf = cmp_facts(e)
                if tf is None:
                    return res
                for tgt in true_t:
                    res.setdefault(tgt, []).extend(tf[0])
                for tgt in false_t:
                    res.setdefault(tgt, []).extend(tf[1])
                return res
            if e[0] == "discr":
                # discriminant of Iterator::next on a Range: loop index facts on the Some edge
                x = strip(e[1])
                if x[0] == "call" and x[1] == "std::iter::Iterator::next" and x[2]:
                    it = x[2][0]
                    while it[0] in ("ref", "deref") or (it[0] == "via"):
                        it = it[2] if it[0] == "via" else it[1]
                    if it[0] == "agg" and it[1][0] == "adt" and it[1][1].endswith("ops::Range") and len(it[2]) == 2:
                        s, en = lz.lin(it[2][0]), lz.lin(it[2][1])
                        n = lz.lin(("field", ("downcast", e[1], "Some"), "std::option::Option", "0"))
                        some_t = [tgt for v, tgt in t["targets"] if v == 1] or ([other] if zero else [])
                        if s is not None and en is not None and n is not None:
                            for tgt in some_t:
                                res.setdefault(tgt, []).extend([en - n - Lin(1), n - s])
                # `value?` / `match value { Some(..) | Ok(..) => .. }`: on the continuing edge the value is known to be Some / Ok
                through_try0 = False
                y0 = e[1]
                while y0[0] in ("via", "ref", "deref"):
                    if y0[0] == "via" and y0[1] == "std::ops::Try::branch":
                        through_try0 = True
                        y0 = y0[2]
                        break
                    y0 = y0[2] if y0[0] == "via" else y0[1]
                if through_try0:
                    listed0 = {v: tgt for v, tgt in t["targets"]}
                    cont_t = [listed0[0]] if 0 in listed0 else ([other] if len(listed0) == 1 else [])
                    k0, deps0 = vkey(lz, y0)
                    for tgt in cont_t:
                        res.setdefault(tgt, []).append(VFact(k0, "Some", deps0))
                        res.setdefault(tgt, []).append(VFact(k0, "Ok", deps0))
                if x[0] == "call" and x[1] in self.prog.bodies:
                    # `helper(..)?` / `match helper(..) { Ok(..) => .. }`: the Ok / Some edge carries the helper's postcondition
                    callee = self.prog.bodies[x[1]]
                    rt = callee.ty(0)
                    tag = {"std::result::Result": "Ok", "std::option::Option": "Some"}.get(rt.get("d")) if rt["k"] == "adt" else None
                    if tag:
                        through_try = False
                        y = e[1]
                        while y[0] in ("via", "ref", "deref"):
                            if y[0] == "via" and y[1] == "std::ops::Try::branch":
                                through_try = True
                            y = y[2] if y[0] == "via" else y[1]
                        good_val = 0 if (through_try or tag == "Ok") else 1
                        listed = {v: tgt for v, tgt in t["targets"]}
                        if good_val in listed:
                            good_t = [listed[good_val]]
                        elif len(listed) == 1:
                            good_t = [other]
                        else:
                            good_t = []
                        for f in self.summary_facts(lz, x, tag):
                            for tgt in good_t:
                                res.setdefault(tgt, []).append(f)
            return res

        def transfer(facts, st, record=None):
            """facts after one statement"""
            if st[0] != "=":
                return facts
            if st[1][1]:
                facts = kill(facts, ("L", st[1][0]))
                vf = variant_of_assignment(body, ch, lz, st)
                if vf is not None:
                    facts = {k: f for k, f in facts.items() if not (isinstance(f, VFact) and f.k == vf.k)}
                    facts[vf.key()] = vf
                return facts
            x = st[1][0]
            facts = kill(facts, ("L", x))
            if x in flags or (x == 0 and record is not None):
                return define_bool(facts, x, ch.rvalue(st[2], 0), record)
            if x in ch.unstable or len(body.defs(x)) > 1:
                # definition facts  x == rvalue  (linear, not mentioning x)
                v = lz.lin(ch.rvalue(st[2], 0))
                if v is not None and ("L", x) not in v.deps:
                    xl = Lin(0, {("L", x, body.name_of(x)): 1}, {("L", x)})
                    add(facts, xl - v)
                    add(facts, v - xl)
            return facts

        def define_bool(facts, x, e, record=None):
            """facts after `x = e` for a bool flag x (or the bool / Result return place when exits are recorded)"""
            if True:
                neg = False
                while e[0] == "un" and e[1] == "Not":
                    neg = not neg
                    e = e[2]
                plain = [f for f in facts.values() if not isinstance(f, (CFact, CFalse)) and ("L", x) not in f.deps]
                is_const = e[0] == "const" and e[1] in (0, 1, True, False)
                cval = (bool(e[1]) != neg) if is_const else None
                is_false = cval is False
                extra, extra_f = [], []      # what the value being true / false adds
                if not is_const:
                    tf = cmp_facts(e)
                    if tf is not None:
                        extra += tf[1] if neg else tf[0]
                        extra_f += tf[0] if neg else tf[1]
                    if e[0] == "call" and e[1] in ("std::result::Result::is_err", "std::result::Result::is_ok",
                                                   "std::option::Option::is_some", "std::option::Option::is_none") and e[2]:
                        k_, deps_ = vkey(lz, e[2][0])
                        tv, fv = {"is_err": ("Err", "Ok"), "is_ok": ("Ok", "Err"), "is_some": ("Some", "None"), "is_none": ("None", "Some")}[e[1].rsplit("::", 1)[-1]]
                        (extra_f if neg else extra).append(VFact(k_, tv, deps_))
                        (extra if neg else extra_f).append(VFact(k_, fv, deps_))
                    if e[0] == "local" and e[1] in flags:
                        for f in facts.values():
                            if isinstance(f, CFact) and f.x == e[1]:
                                ((extra if f.pol else extra_f) if not neg else (extra_f if f.pol else extra)).append(f.f)
                    if e[0] == "call" and e[1] in self.prog.bodies and not neg:
                        extra += self.summary_facts(lz, e, "true")
                if x == 0 and record is not None:
                    rt = body.ty(0)
                    if rt["s"] == "bool":
                        if not is_false:
                            record.append(("true", [f for f in plain + extra if isinstance(f, Lin)]))
                    else:
                        tag = "any"
                        if e[0] == "agg" and e[1][0] == "adt" and e[1][1] in ("std::option::Option", "std::result::Result"):
                            tag = e[1][2]
                        elif e[0] == "const" and "None" in (e[2] or ""):
                            tag = "None"
                        elif e[0] == "via" and e[1] == "std::ops::FromResidual::from_residual":
                            tag = "Err" if rt.get("d") == "std::result::Result" else "None"
                        record.append((tag, [f for f in plain if isinstance(f, Lin)]))
                if x in flags:
                    for pol, add_ in ((True, extra), (False, extra_f)):
                        if cval is not None and cval != pol:
                            c_ = CFalse(x, pol)       # the variable is `not pol` here: neutral for `x == pol => ..`
                            facts[c_.key()] = c_
                        else:
                            for f in plain + add_:
                                if ("L", x) not in f.deps:
                                    cf = CFact(x, f, pol)
                                    facts[cf.key()] = cf
                return facts

        bases = {}

        def check(bb, kind, goals, desc, facts, base=None):
            lins = [f for f in facts.values() if isinstance(f, Lin)] + list(lz.intrinsic.values())
            ok = all(g is not None and (g is True or prove(g, lins)) for g in goals)
            k = (bb, kind, desc)
            if base is not None:
                bases[k] = base
            prev = obligations.get(k)
            obligations[k] = ok if prev is None else (prev and ok)

        NARROW = {"u8": 255, "u16": 65535, "u32": 4294967295}

        def narrow_overflow(bb, t, facts):
            """`a + b` / `a * b` / `a - b` checked in a type narrower than usize on a non-constant value: the Overflow assert is a panic
            in debug builds and a silent wrap-around in release builds (after which a length test no longer means what it says)"""
            c = t["cond"]
            if c[0] not in ("cp", "mv") or not c[1][1]:
                return
            tl = c[1][0]
            ty = body.ty(tl)["s"]
            if not (ty.startswith("(") and ty.endswith(", bool)")):
                return
            it = ty[1:-7]
            if it not in NARROW:
                return
            dfs = [d for d in body.defs(tl) if d[0] == "stmt" and d[3][0] == "bin"]
            if len(dfs) != 1:
                return
            rv = dfs[0][3]
            op = rv[1].replace("WithOverflow", "")
            a, b2 = lz.lin(ch.origin(rv[2])), lz.lin(ch.origin(rv[3]))
            if a is not None and b2 is not None and a.is_const() and b2.is_const():
                return
            goal = None
            if a is not None and b2 is not None:
                if op == "Add":
                    goal = Lin(NARROW[it]) - a - b2
                elif op == "Sub":
                    goal = a - b2
                elif op == "Mul" and (a.is_const() or b2.is_const()):
                    goal = Lin(NARROW[it]) - (b2.scale(a.c) if a.is_const() else a.scale(b2.c))
            # a decoded u8/u16/u32 is at most the maximum of its own type
            lins_extra = {}
            for side in (rv[2], rv[3]):
                e0 = ch.origin(side)
                v = lz.lin(e0)
                if v is not None and len(v.t) == 1 and v.c == 0 and list(v.t.values())[0] == 1:
                    sty = None
                    if side[0] in ("cp", "mv") and not side[1][1]:
                        sty = body.ty(side[1][0])["s"]
                    if sty in NARROW:
                        f = Lin(NARROW[sty]) - v
                        lins_extra[f.key()] = f
            fx = dict(facts)
            fx.update(lins_extra)
            check(bb, "overflow", [goal], "%s %s %s in %s" % (show(ch.origin(rv[2]))[:40], {"Add": "+", "Sub": "-", "Mul": "*"}.get(op, op), show(ch.origin(rv[3]))[:40], it), fx)

        changed = True
        rounds = 0
        OUT_EDGE = {}
        while changed:
            changed = False
            rounds += 1
            if rounds > 60:
                raise CheckError("bounds dataflow did not converge in %s" % body.path)
            for bb in order:
                if IN[bb] is None:
                    continue
                facts = dict(IN[bb])
                for st in body.stmts(bb):
                    facts = transfer(facts, st)
                t = body.term(bb)
                if t["k"] == "call":
                    self._call_obligations(body, bb, t, ch, lz, facts, check)
                    facts = kill(facts, ("C", bb))
                    if not t["dest"][1]:
                        facts = kill(facts, ("L", t["dest"][0]))
                        if t["dest"][0] in flags:
                            # `let bad = a || key.is_none();` - the last operand is a call whose result lands in the flag
                            facts = define_bool(facts, t["dest"][0], ch.call(t, bb, 0))
                elif t["k"] == "assert" and t["msg"].startswith("BoundsCheck"):
                    e = ch.origin(t["cond"])
                    if e[0] == "bin" and e[1] == "Lt":
                        i, L = lz.lin(e[2]), lz.lin(e[3])
                        g = (L - i - Lin(1)) if i is not None and L is not None else None
                        check(bb, "bounds", [g], "index %s < %s" % (show(e[2])[:60], show(e[3])[:40]), facts, base=(e[3][1] if e[3][0] == "len" else None))
                    else:
                        check(bb, "bounds", [None], "bounds check", facts)
                elif t["k"] == "assert" and t["msg"].startswith("Overflow"):
                    narrow_overflow(bb, t, facts)
                if t["k"] == "call" and t["dest"] == [0, []] and exits is not None:
                    pass
                ef = edge_facts(bb, facts)
                for s in body.succ(bb):
                    nf = dict(facts)
                    for f in ef.get(s, []):
                        add(nf, f)
                    if IN[s] is None:
                        IN[s] = nf
                        changed = True
                    else:
                        inter = meet(IN[s], nf)
                        if set(inter) != set(IN[s]):
                            IN[s] = inter
                            changed = True
        # final pass results: obligations dict was overwritten at each visit with and-ing; recompute once at fixpoint
        obligations.clear()
        for bb in order:
            if IN[bb] is None:
                continue
            facts = dict(IN[bb])
            for st in body.stmts(bb):
                facts = transfer(facts, st, record=exits)
            t = body.term(bb)
            if t["k"] == "call":
                self._call_obligations(body, bb, t, ch, lz, facts, check)
                if exits is not None and t["dest"] == [0, []]:
                    exits.append(("true" if body.ty(0)["s"] == "bool" else "any", [f for f in facts.values() if isinstance(f, Lin)]))
            elif t["k"] == "assert" and t["msg"].startswith("BoundsCheck"):
                e = ch.origin(t["cond"])
                if e[0] == "bin" and e[1] == "Lt":
                    i, L = lz.lin(e[2]), lz.lin(e[3])
                    g = (L - i - Lin(1)) if i is not None and L is not None else None
                    check(bb, "bounds", [g], "index %s < %s" % (show(e[2])[:60], show(e[3])[:40]), facts, base=(e[3][1] if e[3][0] == "len" else None))
                else:
                    check(bb, "bounds", [None], "bounds check", facts)
            elif t["k"] == "assert" and t["msg"].startswith("Overflow"):
                narrow_overflow(bb, t, facts)
        out = []
        n_ok = 0
        for (bb, kind, desc), ok in sorted(obligations.items()):
            if ok:
                n_ok += 1
            else:
                out.append({"body": body.path, "bb": bb, "kind": kind, "desc": desc, "loc": body.loc(bb), "base": bases.get((bb, kind, desc))})
        self.last_all = [{"bb": bb, "kind": kind, "desc": desc, "ok": ok, "base": bases.get((bb, kind, desc)), "loc": body.loc(bb)}
                         for (bb, kind, desc), ok in sorted(obligations.items())]
        return out, {"obligations": len(obligations), "discharged": n_ok}

    # ------------------------------------------------------------------
    def _call_obligations(self, body, bb, t, ch, lz, facts, check):
        name = call_name(t) or ""
        full = t.get("callee_full") or ""
        if name in ("std::ops::Index::index", "std::ops::IndexMut::index_mut") and len(t["args"]) == 2:
            self_ty = body.tyix(t["cargs"][0])["s"] if t.get("cargs") else ""
            if not self_ty.startswith(SLICE_SELF):
                return
            base, idx = ch.origin(t["args"][0]), ch.origin(t["args"][1])
            idx = self._expand_here(body, ch, idx, bb)
            L = lz.length(base)
            n_self = array_len(body, body.tyix(t["cargs"][0])) if t.get("cargs") else None
            if n_self is not None:
                L = Lin(n_self)      # indexing a [T; N]: the length is the type's
            r = range_of(idx)
            if r is None or L is None:
                check(bb, "slice", [None], "%s[%s]" % (show(base)[:40], show(idx)[:80]), facts, base=base)
                return
            kind, s, e = r
            goals = []
            if kind == "range":
                a, b = lz.lin(s), lz.lin(e)
                goals = [None] if a is None or b is None else [b - a, L - b]
                d = "%s[%s..%s]" % (show(base)[:30], show(s)[:50], show(e)[:50])
            elif kind == "to":
                b = lz.lin(e)
                goals = [None] if b is None else [L - b]
                d = "%s[..%s]" % (show(base)[:30], show(e)[:50])
            elif kind == "from":
                a = lz.lin(s)
                goals = [None] if a is None else [L - a]
                d = "%s[%s..]" % (show(base)[:30], show(s)[:50])
            elif kind == "full":
                goals = []
                d = "%s[..]" % show(base)[:30]
            else:
                i = lz.lin(s)
                goals = [None] if i is None else [L - i - Lin(1)]
                d = "%s[%s]" % (show(base)[:30], show(s)[:50])
            check(bb, "slice", goals, d, facts, base=base)
            return
        last = name.rsplit("::", 1)[-1]
        if name.startswith(("std::option::Option::", "std::result::Result::")) and last in ("unwrap", "expect", "unwrap_unchecked"):
            e = ch.origin(t["args"][0])
            # D3: try_into of a constant-width slice into [T; N]
            ok = False
            x = e
            while x[0] in ("ref", "deref"):
                x = x[1]
            n = array_len(body, body.ty(t["dest"][0])) if not t["dest"][1] else None
            if x[0] == "via" and x[1] in ("std::convert::TryInto::try_into", "std::convert::TryFrom::try_from") and n is not None:
                L = lz.length(x[2])
                if L is not None and L.is_const() and L.c == n:
                    ok = True
            if not ok:
                good = ("Ok", "Some")
                y = x
                want = None
                if y[0] == "call" and y[1] == "std::result::Result::err" and y[2]:
                    y, want = y[2][0], "Err"
                elif y[0] == "via" and y[1] == "std::result::Result::ok":
                    y, want = y[2], "Ok"
                k, _ = vkey(lz, y)
                for f in facts.values():
                    if isinstance(f, VFact) and f.k == k and (f.variant == want if want else f.variant in good):
                        ok = True
            check(bb, "unwrap", [] if ok else [None], "%s on %s" % (last, show(e)[:90]), facts)
            return
        if name in ("std::vec::Vec::with_capacity", "std::vec::Vec::reserve", "std::vec::Vec::reserve_exact", "std::vec::from_elem",
                    "std::vec::Vec::resize", "std::collections::VecDeque::with_capacity", "std::string::String::with_capacity"):
            # allocation sized by a decoded count: must be bounded by a small multiple of the input length
            ai = {"std::vec::Vec::with_capacity": 0, "std::collections::VecDeque::with_capacity": 0, "std::string::String::with_capacity": 0}.get(name, 1)
            if ai < len(t["args"]):
                n = lz.lin(ch.origin(t["args"][ai]))
                if n is None or not n.is_const():
                    goals_ok = False
                    lins = [f for f in facts.values() if isinstance(f, Lin)] + list(lz.intrinsic.values())
                    if n is not None:
                        for p in range(1, body.argc + 1):
                            if body.ty(p)["s"] in BYTE_BUF:
                                L = Lin(0, {("len", ("L", p, body.name_of(p))): 1})
                                if any(prove(L.scale(k) - n, lins) for k in (1, 4, 16, 64)):
                                    goals_ok = True
                    check(bb, "alloc", [] if goals_ok else [None], "%s(%s)" % (last, show(ch.origin(t["args"][ai]))[:70]), facts)
            return
        if "panicking::" in name or name.startswith("std::rt::begin_panic") or name.endswith("::panic_fmt"):
            check(bb, "panic", [None], name.rsplit("::", 1)[-1], facts)
            return
        # local callee that receives input bytes: analyse it in this context
        res = t.get("res") or t.get("callee")
        callee = self.prog.bodies.get(res) if res else None
        if callee is None and name in ("std::convert::TryInto::try_into", "std::convert::Into::into") and len(t.get("cargs", [])) >= 2:
            # `x.try_into()` / `x.into()` run the workspace's `impl TryFrom<T> for U` / `impl From<T> for U` through std's blanket impl
            src_ty, dst_ty = body.tyix(t["cargs"][0])["s"], body.tyix(t["cargs"][1])["s"]
            tr = "std::convert::TryFrom" if name.endswith("try_into") else "std::convert::From"
            fn = "try_from" if name.endswith("try_into") else "from"
            callee = self.prog.bodies.get("<%s as %s<%s>>::%s" % (dst_ty, tr, src_ty, fn))
        if callee is None or callee.is_promoted or t.get("rkind") == "Virtual":
            return
        ctx = []
        follows = False
        for i, a in enumerate(t["args"]):
            if i + 1 > callee.argc:
                break
            pty = callee.ty(i + 1)["s"]
            if pty in BYTE_BUF:
                follows = True
                L = lz.length(ch.origin(a))
                if L is not None and L.is_const():
                    ctx.append((i + 1, int(L.c), int(L.c)))
                elif L is not None:
                    # best constant lower bound on the argument's length provable at this call site
                    lins = [f for f in facts.values() if isinstance(f, Lin)] + list(lz.intrinsic.values())
                    lo = 0
                    step = 1
                    while step <= 1 << 16 and prove(L - Lin(lo + step), lins):
                        lo += step
                        step *= 2
                    step //= 2
                    while step >= 1:
                        if prove(L - Lin(lo + step), lins):
                            lo += step
                        step //= 2
                    if lo > 0:
                        ctx.append((i + 1, lo, None))
        if callee.path in self.ctx_targets:
            follows = True
        if not follows:
            return
        # the caller's facts at the call site travel with the call: a length test made before handing `bytes, start, count`
        # to a helper discharges the helper's slicing.  Caller atoms are renamed (`ext`) and frozen; each callee parameter that
        # the callee never re-assigns is bound to the argument's value / length
        foreign = []
        binds = []
        for i, a in enumerate(t["args"]):
            p = i + 1
            if p > callee.argc or callee.defs(p) or callee.partial_defs(p):
                continue
            pty = callee.ty(p)
            nm = callee.name_of(p)
            ae = ch.origin(a)
            base_ty = pty
            while base_ty["k"] in ("ref", "refmut"):
                base_ty = callee.tyix(base_ty["i"])
            if pty["k"] == "refmut" and base_ty["k"] != "slice":
                continue        # a `&mut Vec` may change length inside the callee
            if base_ty["k"] in ("uint", "int") or base_ty["s"] in ("usize", "u64", "u32", "u16", "u8"):
                v = lz.lin(ae)
                if v is not None:
                    binds.append((Lin(0, {("L", p, nm): 1}), v))
            elif base_ty["k"] in ("slice", "str") or base_ty["s"].startswith(("std::vec::Vec<", "std::string::String", "[")):
                L = lz.length(ae)
                if L is not None and array_len(callee, pty) is None:
                    binds.append((Lin(0, {("len", ("L", p, nm)): 1}), L))
        # a parameter that is a reference to a structure: lengths of its fields are the lengths of the same fields of the argument
        from ..expr import field_path
        fact_list = [f for f in list(facts.values()) + list(lz.intrinsic.values()) if isinstance(f, Lin)]
        for i, a in enumerate(t["args"]):
            p = i + 1
            if p > callee.argc or callee.defs(p) or callee.partial_defs(p):
                continue
            pty = callee.ty(p)
            base_ty = pty
            while base_ty["k"] in ("ref", "refmut"):
                base_ty = callee.tyix(base_ty["i"])
            if pty["k"] != "ref" or base_ty["k"] != "adt":
                continue
            ae = ch.origin(a)
            afp = field_path(ae)
            roots = [y for y in walk(ae) if y[0] in ("param", "local")]
            if not afp or len(roots) != 1:
                continue
            prefix = "%s." % afp
            suffix = "#%d" % roots[0][1]
            pname = callee.name_of(p) or "_%d" % p
            for f in fact_list:
                for k in f.t:
                    if k[0] == "len" and isinstance(k[1], tuple) and k[1][0] == "L" and k[1][1] == -1 and isinstance(k[1][2], str) \
                            and k[1][2].startswith(prefix) and k[1][2].endswith(suffix):
                        rest = k[1][2][len(afp):-len(suffix)]
                        ck = ("len", ("L", -1, "%s%s#%d" % (pname, rest, p)))
                        binds.append((Lin(0, {ck: 1}), Lin(0, {k: 1})))
        if binds:
            seenb = set()
            for pl, v in binds:
                ve = ext_lin(v)
                kk = (pl.key(), ve.key())
                if kk in seenb:
                    continue
                seenb.add(kk)
                foreign += [pl - ve, ve - pl]
            for f in list(facts.values()) + list(lz.intrinsic.values()):
                if isinstance(f, Lin):
                    foreign.append(ext_lin(f))
        sub = self.analyze(callee, tuple(ctx), tuple(foreign))
        for o in sub:
            self.via.setdefault((o["body"], o["bb"], o["kind"], o["desc"]), o)["callers"] = \
                self.via.get((o["body"], o["bb"], o["kind"], o["desc"]), o).get("callers", []) + [body.loc(bb)]

    via = {}

    def _expand_here(self, body, ch, e, bb):
        """a Range built from re-assignable variables just before the call (same block, nothing in between
        re-assigns what it reads) may be read through"""
        x = e
        while x[0] in ("ref", "deref"):
            x = x[1]
        if x[0] != "local" or x[1] not in ch.unstable:
            return e
        defs = body.defs(x[1])
        if len(defs) != 1 or defs[0][0] != "stmt" or defs[0][1] != bb:
            return e
        rv = defs[0][3]
        val = ch.rvalue(rv, 0)
        reads = {y[1] for y in walk(val) if y[0] == "local"}
        for st in body.stmts(bb)[defs[0][2] + 1:]:
            if st[0] == "=" and st[1][0] in reads:
                return e
        return val


def run(prog, tier, extra=None):
    res = Result("C10", "other")
    R = res.rule("C10.total", "panic-capable operations on input bytes in decoder bodies are discharged by dominating length facts", floor=200)
    RR = res.rule("C10.no-recursion", "no decoder body calls back into itself: recursion depth would be chosen by the input", floor=10)
    RS = res.rule("C10.signature", "a decoder with undischarged obligations can express failure (returns Result/Option)", floor=len(ENTRY) - 1)
    da = DecoderAnalysis(prog)
    da.via = {}
    undis = {}
    total_obl = total_ok = 0
    seen_bodies = {}
    for suffix in ENTRY:
        b = prog.body(CORE + suffix)
        if b is None:
            ty, fn = suffix.rsplit("::", 1)
            cands = [x for x in prog.all_bodies() if x.path.startswith("<%s%s as " % (CORE, ty)) and x.path.endswith(">::" + fn)]
            b = cands[0] if len(cands) == 1 else None
        if b is None:
            raise LookupError("decoder entry point %s not found" % suffix)
        res.instance(RS)
        ret = b.ty(0)
        can_fail = ret["k"] == "adt" and ret["d"] in ("std::result::Result", "std::option::Option")
        callers = []
        if not can_fail:
            # a decoder that cannot express failure is safe only if every call site guarantees enough bytes:
            # judge it in the context of each non-test caller (standalone only when nothing calls it)
            for cb in prog.all_bodies():
                if "::tests::" in cb.path or "/test/" in cb.file or cb.path == b.path:
                    continue
                if any((t.get("res") or t.get("callee")) == b.path for _, t in cb.calls()):
                    callers.append(cb)
        if callers:
            for cb in callers:
                da.analyze(cb, ())
            res.sample({"decoder": suffix, "judged_through_callers": [x.path.replace(CORE, "")[-60:] for x in callers][:8]})
            continue
        out = da.analyze(b, ())
        for o in out:
            undis[(o["body"], o["bb"], o["kind"], o["desc"])] = o
    for k, o in da.via.items():
        undis.setdefault(k, o)
    # count obligations over every (body, context) analysed
    per_body = {}
    for (path, ctx, fkey), out in da.memo.items():
        b = prog.body(path)
        st = da.memo_stats.get((path, ctx, fkey)) or {"obligations": 0, "discharged": 0}
        total_obl += st["obligations"]
        total_ok += st["discharged"]
        per_body.setdefault(path, []).append({"context": list(ctx), "obligations": st["obligations"], "discharged": st["discharged"]})
    res.instance(R, total_obl)
    # group per body
    by_body = {}
    for o in undis.values():
        by_body.setdefault(o["body"], []).append(o)
    for path, obs in sorted(by_body.items()):
        b = prog.body(path)
        name = path.replace(CORE, "")
        ret = b.ty(0)
        can_fail = ret["k"] == "adt" and ret["d"] in ("std::result::Result", "std::option::Option")
        obs.sort(key=lambda o: (o["bb"], o["kind"]))
        if not can_fail:
            # keyed by decoder only: it cannot reject at all, so one more or one fewer unchecked operation in it is the same finding
            res.add(Finding(RS, "C10.signature|%s" % path,
                            "%s returns %s and cannot reject input, but %d operation(s) on the input can panic (first: %s %s)"
                            % (name, ret["s"].split("::")[-1], len(obs), obs[0]["kind"], obs[0]["desc"][:70]), obs[0]["loc"],
                            {"undischarged": [{"loc": o["loc"], "kind": o["kind"], "op": o["desc"]} for o in obs[:20]]}))
            continue
        counters = {}
        for o in obs:
            n = counters.get(o["kind"], 0)
            counters[o["kind"]] = n + 1
            res.add(Finding(R, "C10.total|%s|%s|%d" % (path, o["kind"], n),
                            "%s: %s `%s` is not covered by a length check and can panic on a short or hostile input"
                            % (name, o["kind"], o["desc"][:100]), o["loc"], {"callers": o.get("callers", [])[:5]}))
    # a decoder that (directly or through other decoders) calls itself recurses as deep as the sender nests its payload: a stack
    # overflow is an abort, not a catchable panic. The bodies analysed above (entry decoders and everything they hand bytes to) must
    # form an acyclic call graph.
    dec_bodies = {path for (path, ctx, fkey) in da.memo}
    edges_dec = {}
    for path in dec_bodies:
        b = prog.body(path)
        if b is None:
            continue
        for bb, t in b.calls():
            tgt = t.get("res") or t.get("callee") or ""
            if tgt in dec_bodies:
                edges_dec.setdefault(path, set()).add((tgt, bb))
    res.instance(RR, len(dec_bodies))

    def reaches(src, dst, seen):
        for (nx, _bb) in edges_dec.get(src, ()):
            if nx == dst:
                return True
            if nx not in seen:
                seen.add(nx)
                if reaches(nx, dst, seen):
                    return True
        return False
    for path in sorted(dec_bodies):
        for (tgt, bb) in sorted(edges_dec.get(path, ())):
            if tgt == path or reaches(tgt, path, {tgt}):
                b = prog.body(path)
                res.add(Finding(RR, "C10.no-recursion|%s|%s" % (path, tgt), "%s calls %s, which leads back to it: the decoder recurses once per nesting level of the input and a "
                                "deeply nested payload overflows the stack (process abort, not an error)" % (path.replace(CORE, ""), tgt.replace(CORE, "")), b.loc(bb)))
    res.extra["decoders"] = {p.replace(CORE, ""): v for p, v in sorted(per_body.items())}
    res.extra["obligations_total"] = total_obl
    res.extra["discharged_total"] = total_ok
    for p, v in sorted(per_body.items())[:8]:
        res.sample({"decoder": p.replace(CORE, ""), "contexts": v})
    res.explanation = (
        "Decides panic-freedom of slicing/indexing/unwrapping/asserting on input bytes in the decoder entry points and the byte-consuming callees they reach: "
        "each such operation is an obligation discharged by linear facts (len(buf) >= e) from dominating length tests, loop-index facts of Range iteration and "
        "constant-width try_into; callees are analysed in the caller's context when the slice handed to them has constant length. It does not decide the allocation "
        "bound, nor arithmetic overflow (64-bit usize assumed).")
    res.assumptions = ["usize is 64 bits: u32 counts times record sizes do not overflow", "entry-point list ENTRY in analysis/rules/c10.py",
                       "unsigned atoms (decoded counts, lengths) are non-negative"]
    return res
