"""C02 (clause) - no wrap-around in pre-validation totals; the inflation gate exists and gates.

R1 in the bodies reachable from Transaction::generate and Block::generate (they run on wire data before any validation) no value
   derived from a read of Slip.amount (or the per-transaction totals computed from it) reaches an overflow-capable u64
   operation: MIR Add/Mul with or without overflow assert, Iterator::sum::<u64>, unless it goes through
   checked_/saturating_/overflowing_ arithmetic or is widened first
R2 Transaction::validate: every accepting path for a transaction type that is not ATR/Issuance/Fee/SPV/BlockStake passes the
   non-violating edge of the comparison between self.total_out and self.total_in
"""
from .. import gate
from ..callgraph import CallGraph
from ..expr import Chaser, call_name, has_field, show, walk
from ..paths import Explorer, describe_path
from ..report import Finding, Result

CORE = "saito_core::core::"
TX = CORE + "consensus::transaction::Transaction::"
TAINT_FIELDS = {("slip::Slip", "amount"), ("transaction::Transaction", "total_in"), ("transaction::Transaction", "total_out"),
                ("transaction::Transaction", "total_fees"), ("transaction::Transaction", "cumulative_fees")}
SAFE_CALLS = ("checked_add", "checked_mul", "checked_sub", "saturating_add", "saturating_mul", "saturating_sub",
              "overflowing_add", "overflowing_mul", "wrapping_add")   # wrapping_* is explicit intent, not silent


def tainted(e):
    for x in walk(e):
        if x[0] == "field":
            for adt, f in TAINT_FIELDS:
                if x[3] == f and x[2].endswith(adt):
                    return "%s.%s" % (adt.split("::")[-1], f)
    return None


def closure_returns_taint(prog, path, depth=0):
    b = prog.bodies.get(path)
    if b is None or depth > 3:
        return None
    ch = Chaser(b)
    for blk in b.blocks:
        for st in blk["s"]:
            if st[0] == "=" and st[1] == [0, []]:
                t = tainted(ch.rvalue(st[2], 0))
                if t:
                    return t
    return None


def run(prog, tier, extra=None):
    res = Result("C02", "other")
    R1 = res.rule("C02.no-wrap", "amount-derived u64 values are not added/multiplied/summed with wrap-around or overflow panic before validation", floor=3)
    R2 = res.rule("C02.inflation-gate", "Transaction::validate accepts a non-privileged transaction only through total_out <= total_in", floor=1)
    R4 = res.rule("C02.fee-counted", "the fee of every user-signed transaction type (Normal, GoldenTicket, Vip, BlockStake, Bound) is added to the block's collected fees", floor=5)
    R5 = res.rule("C02.bound-outputs-constrained", "Transaction::validate accepts a Bound (NFT) transaction only after a scan of its outputs beyond the group (to[3..]) for slip types", floor=1)
    R3 = res.rule("C02.payout-exact", "Block::validate accepts a block only with exactly the fee transaction its consensus values call for", floor=3)
    cg = CallGraph(prog, [u for u in prog.units if u.crate == "saito_core"])
    roots = [TX + "generate", CORE + "consensus::block::Block::generate"]
    for r in roots:
        if r not in cg.bodies:
            raise LookupError(r + " not found")
    live = cg.reachable_from(roots, kinds=("call", "creates", "await", "dyn"))
    res.extra["bodies_reachable_from_generate"] = len(live)
    for p in sorted(live):
        b = cg.bodies[p]
        ch = None
        name = p.replace(CORE, "")
        ordinal = {}
        for bb, blk in enumerate(b.blocks):
            for st in blk["s"]:
                if st[0] != "=" or st[2][0] != "bin":
                    continue
                op = st[2][1]
                base = op.replace("WithOverflow", "").replace("Unchecked", "")
                if base not in ("Add", "Mul"):
                    continue
                ty = b.ty(st[1][0])["s"]
                if not (ty == "u64" or ty.startswith("(u64")):
                    continue
                ch = ch or Chaser(b)
                a, c = ch.origin(st[2][2]), ch.origin(st[2][3])
                t = tainted(a) or tainted(c)
                res.instance(R1)      # every u64 add/mul in scope is examined for amount taint
                if not t:
                    continue
                n = ordinal.get(base, 0)
                ordinal[base] = n + 1
                res.add(Finding(R1, "C02.no-wrap|%s|%s|%d" % (p, base, n),
                                "%s: u64 %s on a value derived from %s (%s) wraps in release builds and panics in debug builds; the operands are unvalidated wire data"
                                % (name[-60:], base, t, show(("bin", op, a, c))[:90]), b.loc(bb, st[3])))
            t = blk["t"]
            if t["k"] != "call":
                continue
            n = call_name(t) or ""
            last = n.rsplit("::", 1)[-1]
            if n in ("std::iter::Iterator::sum", "std::iter::Iterator::product", "rayon::iter::ParallelIterator::sum"):
                out_ty = b.ty(t["dest"][0])["s"]
                if out_ty != "u64":
                    continue
                ch = ch or Chaser(b)
                e = ch.origin(t["args"][0])
                src = tainted(e)
                for x in walk(e):
                    if x[0] == "agg" and x[1][0] == "closure":
                        src = src or closure_returns_taint(prog, x[1][1])
                res.instance(R1)
                if not src:
                    continue
                k = ordinal.get("sum", 0)
                ordinal["sum"] = k + 1
                res.add(Finding(R1, "C02.no-wrap|%s|sum|%d" % (p, k),
                                "%s: Iterator::%s::<u64> over %s wraps in release builds and panics in debug builds; the amounts are unvalidated wire data"
                                % (name[-60:], last, src), b.loc(bb)))
            elif last in SAFE_CALLS and n.startswith("std::num::"):
                ch = ch or Chaser(b)
                if any(tainted(ch.origin(a)) for a in t["args"]):
                    res.instance(R1)
                    res.sample({"rule": R1, "site": b.loc(bb), "op": last, "verdict": "explicit overflow handling"})

    # R2
    tv = prog.body(TX + "validate")
    ch = Chaser(tv)

    def pair(a, b):
        return has_field(a, "transaction::Transaction", "total_out") and has_field(b, "transaction::Transaction", "total_in")
    cmps = gate.order_edges(tv, ch, pair)
    res.instance(R2, len(cmps))
    good = set()
    for c in cmps:
        if c["op"] in ("Gt",):
            good |= c["false_edges"]
        elif c["op"] in ("Le",):
            good |= c["true_edges"]
    PRIV = {"Fee", "SPV", "ATR", "Issuance"}      # a staking transaction is a user transaction: it consumes and pays like any other
    exempt, sites = gate.enum_compare_edges(prog, tv, ch, "transaction::TransactionType", "transaction_type", PRIV)
    if not cmps:
        res.add(Finding(R2, "C02.inflation-gate|no-comparison", "Transaction::validate does not compare total_out with total_in", tv.loc(0)))
    else:
        ex = Explorer(tv)
        found = ex.explore(0, deleted_edges=good | exempt, accept=gate.make_accept(tv, return_true=True))
        if found:
            kind, path = sorted(found.items())[0]
            res.add(Finding(R2, "C02.inflation-gate|bypass", "Transaction::validate can accept a non-privileged transaction without establishing total_out <= total_in",
                            tv.loc(path[-1]), {"path": describe_path(tv, path)}))
        else:
            res.sample({"rule": R2, "comparison": ["%s: total_out %s total_in" % (tv.loc(c["bb"]), c["op"]) for c in cmps], "states": ex.states, "verdict": "must-pass holds"})
    # R4: a user transaction's fee is inputs minus outputs; those tokens exist afterwards only as part of the block's total_fees_new
    # (from which payouts are made). generate_consensus_values adds transaction.total_fees under a test of the transaction type: for
    # every type a user can sign, that addition must be reachable - otherwise the fee is destroyed (and the supply check aborts the node).
    from ..fields import place_has_field as _phf4
    from ..expr import Chaser as _Ch4
    gcv4 = prog.body(CORE + "consensus::block::Block::generate_consensus_values::{closure#0}")
    if gcv4 is None:
        raise LookupError("Block::generate_consensus_values not found")
    ch4 = _Ch4(gcv4)
    adds4 = {bb for bb, blk in enumerate(gcv4.blocks) for st in blk["s"]
             if st[0] == "=" and _phf4(st[1], "ConsensusValues", "total_fees_new") is not None and has_field(ch4.rvalue(st[2], 0), "transaction::Transaction", "total_fees")}
    if not adds4:
        res.instance(R4)
        res.add(Finding(R4, "C02.fee-counted|anchors", "generate_consensus_values no longer adds transaction.total_fees to cv.total_fees_new (anchor moved?)", gcv4.loc(0)))
    else:
        for v4 in ("Normal", "GoldenTicket", "Vip", "BlockStake", "Bound"):
            res.instance(R4)
            known4 = {}
            dead4 = gate.edges_not_taken_when(prog, gcv4, ch4, "transaction::TransactionType", "transaction_type", v4, known=known4)
            hit4 = Explorer(gcv4, fixed_locals=dict(known4)).explore(0, deleted_edges=dead4, accept=lambda bb, env: "added" if bb in adds4 else None)
            if hit4:
                res.sample({"rule": R4, "type": v4, "verdict": "fee added to total_fees_new"})
            else:
                res.add(Finding(R4, "C02.fee-counted|%s" % v4, "generate_consensus_values never adds the fee of a %s transaction to total_fees_new: inputs minus outputs of such a transaction "
                                "are counted nowhere - the tokens are destroyed, and Blockchain::check_total_supply aborts the node after the block is wound" % v4, gcv4.loc(sorted(adds4)[0])))
    # R5: the amount of a Bound slip is not counted as an output (total_out skips it), so a Bound output outside the NFT group
    # costs its creator nothing - and the single-slip rebroadcast later re-issues any unspent slip as a spendable ATR slip of the same
    # amount. Both NFT branches (create, send) therefore have to refuse non-Normal outputs after the group: every accepting path for
    # the Bound type passes a loop over self.to with a skip(..) adaptor that tests slip_type.
    tv5 = tv
    ch5 = Chaser(tv5)
    scans5 = set()
    for bb, t in tv5.calls():
        if call_name(t) == "std::iter::Iterator::next" and t["args"]:
            it = ch5.origin(t["args"][0])
            if has_field(it, "transaction::Transaction", "to") and not has_field(it, "transaction::Transaction", "from") and \
                    any(y[0] in ("call", "via") and y[1].rsplit("::", 1)[-1] == "skip" for y in walk(it)):
                h5 = tv5.innermost_loop_containing([bb])
                if h5 is not None:
                    loop5 = tv5.natural_loop(h5)
                    tests_type = any(st[0] == "=" and has_field(ch5.rvalue(st[2], 0), "slip::Slip", "slip_type") for lb in loop5 for st in tv5.stmts(lb)) or \
                        any(tv5.term(lb)["k"] == "call" and any(has_field(ch5.origin(a), "slip::Slip", "slip_type") for a in tv5.term(lb)["args"]) for lb in loop5)
                    if tests_type:
                        scans5.add(h5)
    res.instance(R5)
    known5 = {}
    dead5 = gate.edges_not_taken_when(prog, tv5, ch5, "transaction::TransactionType", "transaction_type", "Bound", known=known5)
    f5 = Explorer(tv5, fixed_locals=dict(known5)).explore(0, deleted_edges=dead5, blocked=scans5, accept=gate.make_accept(tv5, return_true=True))
    if f5:
        kind5, path5 = sorted(f5.items())[0]
        res.add(Finding(R5, "C02.bound-outputs-constrained|bypass", "Transaction::validate can accept a Bound transaction without having scanned its outputs after the NFT group (to[3..]) for their "
                        "slip type: an extra Bound output of any amount is accepted (its amount is not counted in total_out) and is later rebroadcast as spendable tokens",
                        tv5.loc(path5[-1]), {"path": describe_path(tv5, path5), "scans_of_to": [tv5.loc(x) for x in sorted(scans5)]}))
    else:
        res.sample({"rule": R5, "scans_of_to": [tv5.loc(x) for x in sorted(scans5)], "verdict": "every accepting path of the Bound type passes one"})
    # R3: the fee transaction is the one place where outputs are created without inputs. generate_consensus_values derives the
    # expected one (cv.fee_transaction); Block::validate must (i) compare it whenever one is expected - a block that omits it
    # loses the payout -, (ii) compare it whenever the block carries one - an unexpected Fee transaction mints tokens -, and
    # (iii) bound the number of Fee transactions in the block (only one index is compared)
    from ._blockvalidate import BlockValidate
    from ..expr import strip
    bvv = BlockValidate(prog)
    vb, vch = bvv.body, bvv.ch

    def is_cv(e, f):
        return has_field(e, "ConsensusValues", f)
    eqc = gate.compare_edges(vb, vch, lambda a, b: is_cv(a, "fee_transaction") and has_field(b, "block::Block", "transactions"))
    none_edges, ft0_edges, bounded_edges = set(), set(), set()
    for bb, blk in enumerate(vb.blocks):
        t = blk["t"]
        if t["k"] != "switch":
            continue
        e0 = vch.origin(t["discr"])
        e, neg = gate.unwrap_not(e0)
        if e[0] == "discr" and is_cv(e[1], "fee_transaction") and strip(e[1])[0] == "field" and strip(e[1])[3] == "fee_transaction":
            none_edges |= gate.variant_edges(vb, bb, 0)
        elif e[0] == "call" and e[1] in ("std::option::Option::is_some", "std::option::Option::is_none") and e[2] and is_cv(e[2][0], "fee_transaction"):
            sw = gate.bool_switch_edges(vb, vch, lambda x: x is e)
            want_true = e[1].endswith("is_none")
            zero = [tgt for v, tgt in t["targets"] if v == 0]
            one = [tgt for v, tgt in t["targets"] if v == 1]
            other = t["otherwise"]
            false_t = zero if zero else ([other] if one else [])
            true_t = one if one else ([other] if zero else [])
            if neg:
                false_t, true_t = true_t, false_t
            for tgt in (true_t if want_true else false_t):
                none_edges.add((bb, tgt))
    def ftnum(a, b):
        return is_cv(a, "ft_num") and b[0] == "const"
    for c in gate.order_edges(vb, vch, ftnum):
        k = c["b"][1]
        # edges on which ft_num == 0 / ft_num <= 1
        if c["op"] == "Gt":
            if k == 0:
                ft0_edges |= c["false_edges"]
            if k <= 1:
                bounded_edges |= c["false_edges"]
        elif c["op"] == "Ge":
            if k == 1:
                ft0_edges |= c["false_edges"]
            if k <= 2:
                bounded_edges |= c["false_edges"]
        elif c["op"] == "Lt":
            if k == 1:
                ft0_edges |= c["true_edges"]
            if k <= 2:
                bounded_edges |= c["true_edges"]
        elif c["op"] == "Le":
            if k == 0:
                ft0_edges |= c["true_edges"]
            if k <= 1:
                bounded_edges |= c["true_edges"]
    for bb, blk in enumerate(vb.blocks):
        t = blk["t"]
        if t["k"] != "switch" or vb.tyix(t["dty"])["s"] != "bool":
            continue
        e, neg = gate.unwrap_not(vch.origin(t["discr"]))
        if e[0] == "bin" and e[1] in ("Eq", "Ne") and ((is_cv(e[2], "ft_num") and e[3][0] == "const") or (is_cv(e[3], "ft_num") and e[2][0] == "const")):
            k = e[3][1] if e[3][0] == "const" else e[2][1]
            is_eq = (e[1] == "Eq") != neg
            zero = [tgt for v, tgt in t["targets"] if v == 0]
            one = [tgt for v, tgt in t["targets"] if v == 1]
            other = t["otherwise"]
            false_t = zero if zero else ([other] if one else [])
            true_t = one if one else ([other] if zero else [])
            eq_t = true_t if is_eq else false_t
            for tgt in eq_t:
                if k == 0:
                    ft0_edges.add((bb, tgt))
                if k <= 1:
                    bounded_edges.add((bb, tgt))
    if not eqc["sites"]:
        res.instance(R3)
        res.add(Finding(R3, "C02.payout-exact|no-comparison", "Block::validate does not compare the block's fee transaction with the one derived by generate_consensus_values", vb.loc(0)))
    else:
        fixed = {"validate_against_utxo": True}
        for key, extra_good, what in (
                ("expected-not-compared", none_edges, "a fee transaction is expected (cv.fee_transaction is Some) but the block's is never compared with it: a block that "
                                                      "omits the payout is accepted and the paid-out value exists nowhere"),
                ("carried-not-compared", ft0_edges, "the block carries a Fee transaction (cv.ft_num > 0) that is never compared with the expected one: outputs created "
                                                    "from nothing are accepted"),
                ("count-unbounded", bounded_edges | ft0_edges, "the number of Fee transactions in the block is not bounded although only one is compared")):
            res.instance(R3)
            path, states = bvv.must_pass(eqc["eq"] | extra_good if key != "count-unbounded" else extra_good, fixed_fields=fixed)
            if path:
                res.add(Finding(R3, "C02.payout-exact|%s" % key, "Block::validate returns true on a path where %s" % what, vb.loc(path[-1]), {"path": bvv.describe(path)}))
            else:
                res.sample({"rule": R3, "clause": key, "comparison": [vb.loc(x) for x in eqc["sites"]], "states": states, "verdict": "must-pass holds"})
    # supply is also inflated by an output spent twice inside one transaction or block, and by rebroadcast fees booked on the
    # wrong arm: decided by the C01 / C13 rules, cross-listed here
    from ._include import include
    include(res, prog, tier, extra, "c01", ["C01.input-window"],
            "an output collected as fees when it left the window must not be spendable afterwards: its value would exist twice")
    include(res, prog, tier, extra, "c01", ["C01.dup-scan", "C01.scan-exemptions"],
            "an input consumed twice inside one transaction or block pays out more than was consumed")
    include(res, prog, tier, extra, "c13", ["C13.handled", "C13.derive", "C13.window-block-on-disk", "C13.fee-deducted"],
            "every expiring output is either rebroadcast (fee booked) or its own amount is booked to the graveyard: nothing else conserves supply")
    include(res, prog, tier, extra, "c03", ["C03.tx-apply-total"],
            "a payout created when a block is wound must be withdrawn when it is unwound (and the inputs it consumed restored): otherwise a reorganisation leaves extra spendable value behind")
    res.explanation = (
        "Decides two necessary clauses of the second sentence of C02: the totals that the inflation test compares cannot wrap around (a wrapped output sum makes "
        "total_out <= total_in true for an inflating transaction), and the test exists and gates every non-privileged accepting path of Transaction::validate. "
        "It does not decide conservation across histories (payouts, treasury, graveyard, ATR arithmetic, reorganisations): those sums are bounded by chain-state "
        "invariants, not by anything visible in the code's shape.")
    res.assumptions = ["taint sources: Slip.amount and Transaction.total_in/total_out/total_fees/cumulative_fees", "scope: bodies reachable from Transaction::generate and Block::generate"]
    return res
