"""C17 (clause) - the handshake authenticates the peer's key.

R1 who may mark: only Peer::handle_handshake_response (and the local STUN constructor) set peer_status = Connected /
   public_key = Some(..); only Network::handle_handshake_response and handle_new_stun_peer insert into address_to_peers
R2 verify before mark: both assignments are unreachable unless the true edge of
   verify(<self.challenge_for_peer>, response.signature, response.public_key) is taken, and the key written is response.public_key
R3 at most once: from the marking, every path to an Ok return clears challenge_for_peer; issued challenges come from generate_random_bytes
"""
from .. import gate
from ..expr import Chaser, call_name, has_call, has_field, show, strip, walk
from ..fields import FieldAnalysis, place_has_field
from ..paths import Explorer, describe_path
from ..report import Finding, Result

CORE = "saito_core::core::"
PEER = CORE + "consensus::peers::peer::Peer::"
HR = PEER + "handle_handshake_response::{closure#0}"
MARKERS = {
    HR: "the authenticated path (R2 applies)",
    PEER + "new_stun": "local STUN API: the key comes from the local application, not from the wire",
}
INSERTERS = {
    CORE + "io::network::Network::handle_handshake_response::{closure#0}": "after Peer::handle_handshake_response returned Ok",
    CORE + "io::network::Network::handle_new_stun_peer::{closure#0}": "local STUN API",
}


def is_connected_rvalue(body, ch, rv):
    e = ch.rvalue(rv, 0)
    for x in walk(e):
        if x[0] == "agg" and x[1][0] == "adt" and x[1][1].endswith("PeerStatus") and x[1][2] == "Connected":
            return True
        if x[0] == "const" and (x[2] or "").endswith("PeerStatus::Connected"):
            return True
    return False


def is_some_rvalue(body, ch, rv):
    e = ch.rvalue(rv, 0)
    return e[0] == "agg" and e[1][0] == "adt" and e[1][2] == "Some", e


def mark_sites(prog):
    """[(body, bb, kind, expr)] for peer_status = Connected and public_key = Some(..) writes, incl. struct literals"""
    out = []
    for b in prog.all_bodies():
        if b.unit.crate not in ("saito_core", "saito_rust", "saito_spammer", "saito_wasm"):
            continue
        if "::tests::" in b.path or "/test/" in b.file:
            continue
        ch = None
        for bb, blk in enumerate(b.blocks):
            for st in blk["s"]:
                if st[0] != "=":
                    continue
                if place_has_field(st[1], "peer::Peer", "peer_status") is not None:
                    ch = ch or Chaser(b)
                    if is_connected_rvalue(b, ch, st[2]):
                        out.append((b, bb, "status", None))
                elif place_has_field(st[1], "peer::Peer", "public_key") is not None:
                    ch = ch or Chaser(b)
                    some, e = is_some_rvalue(b, ch, st[2])
                    if some:
                        out.append((b, bb, "key", e))
                elif st[2][0] == "agg" and st[2][1][0] == "adt" and st[2][1][1].endswith("peers::peer::Peer"):
                    ch = ch or Chaser(b)
                    names = st[2][1][4]
                    for i, op in enumerate(st[2][2]):
                        if i < len(names) and names[i] == "peer_status" and is_connected_rvalue(b, ch, ["use", op]):
                            out.append((b, bb, "status", None))
                        if i < len(names) and names[i] == "public_key":
                            some, e = is_some_rvalue(b, ch, ["use", op])
                            if some:
                                out.append((b, bb, "key", e))
    return out


def run(prog, tier, extra=None):
    res = Result("C17", "other")
    R1 = res.rule("C17.who-may-mark", "only the authenticated handler (and the local STUN API) marks a peer connected / records its key / indexes it by key", floor=6)
    R2 = res.rule("C17.verify-before-mark", "marking is dominated by the true edge of verify(challenge_for_peer, response.signature, response.public_key)", floor=2)
    R4 = res.rule("C17.disconnect-clears-challenge", "disconnecting a peer always clears its outstanding challenge", floor=1)
    R3 = res.rule("C17.once", "a used challenge is cleared on every Ok path; issued challenges are fresh random bytes", floor=3)
    R5 = res.rule("C17.index-paired", "a peer record leaves index_to_peers only together with its address_to_peers entry, and is inserted only at a free index", floor=3)

    from ._helpers import helper_closure, root
    marker_cov = helper_closure(prog, MARKERS)
    inserter_cov = helper_closure(prog, INSERTERS)
    marks = mark_sites(prog)
    for (b, bb, kind, e) in marks:
        res.instance(R1)
        if root(b.path) not in marker_cov:
            res.add(Finding(R1, "C17.who-may-mark|%s|%s" % (b.path, kind),
                            "%s %s outside the authenticated handshake handler" % (b.path.split("::", 3)[-1], "sets peer_status = Connected" if kind == "status" else "records a peer public key"),
                            b.loc(bb)))
    fa = FieldAnalysis(prog)
    for b in prog.all_bodies():
        if "::tests::" in b.path or "/test/" in b.file:
            continue
        for s in fa.sites(b, "PeerCollection", "address_to_peers"):
            if s[3] in ("insert", "replace", "unknown"):
                res.instance(R1)
                if root(b.path) not in inserter_cov:
                    res.add(Finding(R1, "C17.who-may-mark|%s|address_to_peers" % b.path,
                                    "%s inserts into PeerCollection.address_to_peers outside the handshake completion" % b.path.split("::", 3)[-1], b.loc(s[1])))
    # the Network-level insert happens only after the peer-level handler returned Ok
    nb = prog.body(CORE + "io::network::Network::handle_handshake_response::{closure#0}")
    if nb is None:
        raise LookupError("Network::handle_handshake_response not found")
    sites = list(gate.verdict_sites(nb, lambda n: n == PEER + "handle_handshake_response"))
    if not sites:
        res.add(Finding(R1, "C17.who-may-mark|network|no-await", "Network::handle_handshake_response does not await Peer::handle_handshake_response", nb.loc(0)))
    for s in sites:
        res.instance(R1)
        helper_effects = tuple(sorted(p.split("::", 3)[-1] for p, c in inserter_cov.items() if p != c))
        found, ex = gate.check_gate(nb, s, gate.make_accept(nb, effects=("std::collections::HashMap::insert", "PeerCollection::remove_reconnected_peer") + helper_effects), prog.units)
        if found:
            kind, path = sorted(found.items())[0]
            res.add(Finding(R1, "C17.who-may-mark|network|err-indexed",
                            "Network::handle_handshake_response indexes the peer by key although Peer::handle_handshake_response returned Err",
                            nb.loc(s["bb"]), {"path": describe_path(nb, path), "reached": kind}))
        else:
            res.sample({"rule": R1, "site": nb.loc(s["bb"]), "verdict": "Err result reaches no address_to_peers insert", "states": ex.states})

    # R2
    hb = prog.body(HR)
    if hb is None:
        raise LookupError("Peer::handle_handshake_response not found")
    ch = Chaser(hb)

    def is_verify(e):
        if e[0] != "call" or e[1] != CORE + "util::crypto::verify" or len(e[2]) != 3:
            return False
        c, sig, key = e[2]
        k = strip(key)
        while k[0] in ("ref", "deref"):
            k = strip(k[1])
        # the key argument is the response's key itself, not a value merely computed from it (`self.public_key.unwrap_or(response.public_key)`
        # verifies under the key the entry is already bound to while the response's key gets recorded)
        exact = k[0] == "field" and k[3] == "public_key" and k[2].endswith("HandshakeResponse")
        if not exact and has_field(c, "peer::Peer", "challenge_for_peer") and has_field(sig, "HandshakeResponse", "signature"):
            other_key.append(show(key)[:80])
        return (has_field(c, "peer::Peer", "challenge_for_peer") and has_field(sig, "HandshakeResponse", "signature") and exact)
    other_key = []
    ver = gate.bool_switch_edges(hb, ch, is_verify)
    if other_key and not ver["sites"]:
        res.add(Finding(R2, "C17.verify-before-mark|other-key", "handle_handshake_response verifies the challenge signature under `%s`, not under the key the response claims and the peer "
                        "is then recorded with: a connection can be bound to a key that never signed its challenge" % other_key[0], hb.loc(0)))
    own = [(b, bb, kind, e) for (b, bb, kind, e) in marks if b.path == HR]
    if not ver["sites"]:
        res.add(Finding(R2, "C17.verify-before-mark|no-verify", "handle_handshake_response has no switch on verify(self.challenge_for_peer, response.signature, response.public_key)", hb.loc(0)))
    if not own:
        res.add(Finding(R2, "C17.verify-before-mark|no-mark", "handle_handshake_response never marks the peer connected (anchor moved?)", hb.loc(0)))
    reach = hb.reachable(0, deleted_edges=ver["true"])
    for (b, bb, kind, e) in own:
        res.instance(R2)
        if bb in reach:
            path = hb.find_path(0, [bb], deleted_edges=ver["true"])
            res.add(Finding(R2, "C17.verify-before-mark|%s" % kind,
                            "handle_handshake_response %s on a path that does not pass a successful verify of the challenge signature"
                            % ("sets peer_status = Connected" if kind == "status" else "records the public key"),
                            hb.loc(bb), {"path": describe_path(hb, path or [])}))
        elif kind == "key":
            if not has_field(e, "HandshakeResponse", "public_key"):
                res.add(Finding(R2, "C17.verify-before-mark|key-source", "the recorded public key is not response.public_key (the verified one): %s" % show(e), hb.loc(bb)))
            else:
                res.sample({"rule": R2, "mark": kind, "site": hb.loc(bb), "verify": [hb.loc(x) for x in ver["sites"]], "key": show(e), "verdict": "dominated by verify's true edge; same key leaf"})
        else:
            res.sample({"rule": R2, "mark": kind, "site": hb.loc(bb), "verdict": "dominated by verify's true edge"})

    # R3
    clear_blocks = set()
    for bb, blk in enumerate(hb.blocks):
        for st in blk["s"]:
            if st[0] == "=" and place_has_field(st[1], "peer::Peer", "challenge_for_peer") is not None:
                e = ch.rvalue(st[2], 0)
                if (e[0] == "agg" and e[1][0] == "adt" and e[1][2] == "None") or (e[0] == "const" and "None" in (e[2] or "")):
                    clear_blocks.add(bb)
    if not clear_blocks:
        res.add(Finding(R3, "C17.once|never-cleared", "handle_handshake_response never clears challenge_for_peer", hb.loc(0)))
    ok_accept = gate.make_accept(hb, return_tags={"Ok"})
    for (b, bb, kind, e) in own:
        if kind != "status":
            continue
        res.instance(R3)
        ex = Explorer(hb)
        found = ex.explore(bb, blocked=clear_blocks, accept=lambda x, env: (ok_accept(x, env) if ok_accept(x, env) == "return-Ok" else None))
        if found:
            kind2, path = sorted(found.items())[0]
            res.add(Finding(R3, "C17.once|not-cleared", "after marking the peer connected an Ok return is reachable without clearing challenge_for_peer (the response could be accepted again)",
                            hb.loc(bb), {"path": describe_path(hb, path)}))
        else:
            res.sample({"rule": R3, "site": hb.loc(bb), "cleared_at": [hb.loc(x) for x in clear_blocks], "verdict": "every Ok path clears the challenge"})
    for fn in ("initiate_handshake", "handle_handshake_challenge"):
        fb = prog.body(PEER + fn + "::{closure#0}")
        if fb is None:
            raise LookupError(fn + " not found")
        chf = Chaser(fb)
        n = 0
        for bb, blk in enumerate(fb.blocks):
            for st in blk["s"]:
                if st[0] == "=" and place_has_field(st[1], "peer::Peer", "challenge_for_peer") is not None:
                    n += 1
                    res.instance(R3)
                    e = chf.rvalue(st[2], 0)
                    if not (has_call(e, "generate_random_bytes") or _calls_random_helper(prog, e) or any(x[0] == "yield" for x in walk(e)) and _random_feeds(fb, chf, prog)):
                        if not _random_feeds(fb, chf, prog):
                            res.add(Finding(R3, "C17.once|%s|not-random" % fn, "%s stores a challenge that does not come from generate_random_bytes: %s" % (fn, show(e)[:120]), fb.loc(bb)))
                            continue
                    # every value that can reach the store is fresh: none of the definitions it is assembled from reads the challenge
                    # that is already outstanding (a re-used challenge lets the peer's own signature over it be reflected back)
                    stale = _reads_old_challenge(fb, chf, e, set())
                    if stale is not None:
                        res.add(Finding(R3, "C17.once|%s|reused" % fn, "%s can re-issue the challenge that is already outstanding (%s) instead of a fresh one: a response made for the "
                                        "earlier challenge - including the node's own reflected answer - is accepted" % (fn, show(stale)[:60]), fb.loc(bb)))
                        continue
                    res.sample({"rule": R3, "fn": fn, "site": fb.loc(bb), "challenge": show(e)[:100], "verdict": "fresh random challenge"})
        if n == 0:
            res.add(Finding(R3, "C17.once|%s|no-challenge" % fn, "%s does not record the challenge it issues" % fn, fb.loc(0)))

    # R4: a challenge does not survive the connection it was issued on: every path through Peer::mark_as_disconnected clears it
    md = prog.body(PEER + "mark_as_disconnected")
    if md is None:
        raise LookupError("Peer::mark_as_disconnected not found")
    chm = Chaser(md)
    clears = set()
    for bb, blk in enumerate(md.blocks):
        for st in blk["s"]:
            if st[0] == "=" and place_has_field(st[1], "peer::Peer", "challenge_for_peer") is not None:
                e = chm.rvalue(st[2], 0)
                if (e[0] == "agg" and e[1][0] == "adt" and e[1][2] == "None") or (e[0] == "const" and "None" in (e[2] or "")):
                    clears.add(bb)
    res.instance(R4)
    p = md.find_path(0, md.return_blocks(), blocked=clears)
    if not clears or p:
        res.add(Finding(R4, "C17.disconnect-clears-challenge", "Peer::mark_as_disconnected can return without clearing challenge_for_peer: a challenge issued on one connection "
                        "stays valid for a response replayed on the next connection of the same peer object", md.loc((p or [0])[-1])))
    else:
        res.sample({"rule": R4, "cleared_at": [md.loc(x) for x in clears], "verdict": "every path clears the outstanding challenge"})

    # R5: address_to_peers[K] = i says "connection i proved K". That stays true only if the record at index i is never removed or
    # replaced while the key entry stays behind: (a) every removal from index_to_peers is followed by a removal from
    # address_to_peers, (b) every insert into index_to_peers is at a fresh index (PeerCounter::get_next_index) or control-dependent
    # on a lookup of that table (the "not present" branch)
    LOOKUPS = ("contains_key", "get", "get_mut", "find_peer_by_index", "find_peer_by_index_mut")
    for b in prog.all_bodies():
        if "::tests::" in b.path or "/test/" in b.file or b.unit.crate not in ("saito_core", "saito_rust", "saito_spammer", "saito_wasm"):
            continue
        # membership changes only: methods of the map itself (a `&mut Peer` obtained through get_mut / iter_mut changes a record, not the table)
        def table_level(x):
            return x[0] == "assign" or (x[0] == "call" and x[2].rsplit("::", 1)[0] in ("std::collections::HashMap", "ahash::AHashMap", "std::collections::hash_map::Entry"))
        isites = [x for x in fa.sites(b, "PeerCollection", "index_to_peers") if x[3] in ("insert", "remove", "replace", "unknown") and table_level(x)]
        if not isites:
            continue
        arem = [x[1] for x in fa.sites(b, "PeerCollection", "address_to_peers") if x[3] == "remove" and table_level(x)]
        chb = Chaser(b)
        name = b.path.replace("::{closure#0}", "").split("::", 3)[-1]
        for x in isites:
            res.instance(R5)
            bb = x[1]
            if x[3] in ("remove", "replace", "unknown"):
                after = b.reachable(bb)
                if not any(a in after for a in arem):
                    res.add(Finding(R5, "C17.index-paired|%s|remove" % b.path,
                                    "%s removes a peer record from index_to_peers without removing its address_to_peers entry: the next connection at that "
                                    "index is listed under a key it never proved" % name, b.loc(bb)))
                else:
                    res.sample({"rule": R5, "site": b.loc(bb), "kind": "remove", "verdict": "followed by address_to_peers.remove"})
                continue
            fresh = any((call_name(t) or "").endswith("PeerCounter::get_next_index") for _, t in b.calls())
            parent = prog.bodies.get(b.parent) if b.parent else None
            if parent is not None and b.kind == "Closure":
                fresh = fresh or any((call_name(t) or "").endswith("PeerCounter::get_next_index") for _, t in parent.calls())
            guarded = False
            for sb, blk in enumerate(b.blocks):
                t = blk["t"]
                if t["k"] != "switch" or not b.dominates(sb, bb) or sb == bb:
                    continue
                e = chb.origin(t["discr"])
                looks = [y for y in walk(e) if y[0] in ("call", "via") and y[1].rsplit("::", 1)[-1] in LOOKUPS
                         and (has_field(y, "PeerCollection", "index_to_peers") or "PeerCollection" in y[1])]
                if not looks:
                    continue
                succs = b.succ(sb)
                if any(bb not in b.reachable(s2) for s2 in succs):
                    guarded = True
            if fresh or guarded:
                res.sample({"rule": R5, "site": b.loc(bb), "kind": "insert", "verdict": "fresh index" if fresh else "control-dependent on a lookup of index_to_peers"})
            else:
                res.add(Finding(R5, "C17.index-paired|%s|insert" % b.path,
                                "%s inserts a peer record into index_to_peers without a fresh index or a lookup deciding that the index is free: an authenticated "
                                "record can be replaced while its key entry stays" % name, b.loc(bb)))

    # R5b: the converse. A key entry is removed only as part of removing the peer record it belongs to (the key is that record's own):
    # the address_to_peers removal is dominated by a removal from index_to_peers in the same body. A removal "by key" anywhere else
    # can hit the entry of another connection that authenticated under the same key.
    for b in prog.all_bodies():
        if "::tests::" in b.path or "/test/" in b.file or b.unit.crate not in ("saito_core", "saito_rust", "saito_spammer", "saito_wasm"):
            continue

        def table_level2(x):
            return x[0] == "call" and x[2].rsplit("::", 1)[0] in ("std::collections::HashMap", "ahash::AHashMap")
        a_rem = [x[1] for x in fa.sites(b, "PeerCollection", "address_to_peers") if x[3] == "remove" and table_level2(x)]
        if not a_rem:
            continue
        i_rem = [x[1] for x in fa.sites(b, "PeerCollection", "index_to_peers") if x[3] == "remove" and table_level2(x)]
        name = b.path.replace("::{closure#0}", "").split("::", 3)[-1]
        for bb in a_rem:
            res.instance(R5)
            if any(i != bb and b.dominates(i, bb) for i in i_rem):
                res.sample({"rule": R5, "site": b.loc(bb), "kind": "key entry removed", "verdict": "together with its peer record"})
            else:
                res.add(Finding(R5, "C17.index-paired|%s|key-only" % b.path, "%s removes an address_to_peers entry by key without removing the peer record it belongs to: a rejected or "
                                "failed handshake on one connection can delete the entry of another connection authenticated under the same key" % name, b.loc(bb)))

    # "incompatible versions never yield a connected peer": the version checks read what the handshake decoder produced; a decoder
    # that invents or skips a field (core_version filled from another field, a trailing field left at its default) defeats them
    from ._include import include
    include(res, prog, tier, extra, "c11", ["C11.peer-assert"],
            "a response under an unexpected key must be refused like any other bad response, not asserted on (the remote side chooses it)",
            keep=lambda f: "peers::peer::" in f.key or "handshake" in f.key.lower())
    include(res, prog, tier, extra, "c09", ["C09.no-field-skipped", "C09.read-before-decode", "C09.layout"],
            "the handshake checks judge the decoded HandshakeChallenge / HandshakeResponse: every field is read from the bytes the peer sent, at the offset it was written",
            keep=lambda f: "Handshake" in f.key)
    res.explanation = (
        "Decides the shape-level part of authentication: who may mark a peer connected / record its key / index it by key, that in the one handler that does, both "
        "writes are dominated by the true edge of verify(self.challenge_for_peer, response.signature, response.public_key) and the key recorded is the verified one, "
        "that the Network level indexes the peer only after an Ok result, that every Ok path clears the used challenge and that issued challenges are fresh random bytes. "
        "It does not decide relay/reflection across connections or attacker interleavings (protocol state space).")
    res.assumptions = ["MARKERS / INSERTERS tables in analysis/rules/c17.py, one reason each"]
    return res


def _reads_old_challenge(fb, chf, e, seen):
    """an expression (following the definitions of the locals it mentions) that reads Peer.challenge_for_peer"""
    if has_field(e, "peer::Peer", "challenge_for_peer"):
        return e
    for x in walk(e):
        if x[0] == "local" and x[1] not in seen:
            seen.add(x[1])
            for d in fb.defs(x[1]):
                if d[0] == "stmt":
                    r = _reads_old_challenge(fb, chf, chf.rvalue(d[3], 0), seen)
                    if r is not None:
                        return r
    return None


def _is_random_source(prog, path, depth=0):
    """generate_random_bytes itself, or a workspace function (sync or async) that returns what it produces"""
    if path.endswith("generate_random_bytes"):
        return True
    if depth > 2:
        return False
    for cand in (path, path + "::{closure#0}"):
        b = prog.bodies.get(cand)
        if b is None or b.is_promoted:
            continue
        for _, t in b.calls():
            tgt = t.get("res") or t.get("callee") or ""
            if tgt.endswith("generate_random_bytes") or (tgt in prog.bodies and tgt != path and b.nblocks < 60 and _is_random_source(prog, tgt, depth + 1)):
                return True
    return False


def _calls_random_helper(prog, e):
    return any(x[0] == "call" and _is_random_source(prog, x[1]) for x in walk(e))


def _random_feeds(fb, chf, prog=None):
    """the issued challenge value is produced by awaiting generate_random_bytes (or a small helper around it) in this body"""
    for bb, t in fb.calls():
        n = call_name(t) or ""
        if n.endswith("generate_random_bytes"):
            return True
        tgt = t.get("res") or t.get("callee") or ""
        if prog is not None and tgt in prog.bodies and _is_random_source(prog, tgt):
            return True
    return False
