"""C11 (clause) - explicit crash shapes reachable from the peer-driven entry points.

On the call graph reachable from RoutingThread::process_network_event, VerificationThread::process_event and
ConsensusThread::process_event:
R1 handler exhaustiveness: no arm of a match on a peer-decoded `Message` leads straight to panic/unreachable/todo
R2 pre-handshake state: no unwrap/expect of Peer.public_key / Peer.challenge_for_peer / PeerCollection::find_peer_by_*
   without a dominating is_some / if-let
R3 fallible peer-data functions are not unwrapped: no Result::unwrap/expect on the result of a workspace function
   that constructs an explicit Err (directly or through `?`)
R4 no decoder with undischarged C10 obligations is reachable
R5 indexing of peer-decoded structures: every `v[i]` / `v[a..b]` whose base is a field of a structure decoded from the wire
   (Transaction, Slip, Hop, Block, GhostChainSync, handshake messages) in a handler-reachable body is covered by a dominating
   length fact (C10's bounds engine: branch conditions, `let ok = a && b` flags, loop indices, helper postconditions)
"""
from ..callgraph import CallGraph
from ..expr import call_name, has_call, has_field, show, strip, trait_method, walk
from .. import gate
from ..paths import Explorer
from ..linear import Lin
from ..report import Finding, Result
from . import c10

CORE = "saito_core::core::"
ENTRY = [
    "<saito_core::core::routing_thread::RoutingThread as saito_core::core::process::process_event::ProcessEvent<saito_core::core::routing_thread::RoutingEvent>>::process_network_event::{closure#0}",
    "<saito_core::core::verification_thread::VerificationThread as saito_core::core::process::process_event::ProcessEvent<saito_core::core::verification_thread::VerifyRequest>>::process_event::{closure#0}",
    "<saito_core::core::consensus_thread::ConsensusThread as saito_core::core::process::process_event::ProcessEvent<saito_core::core::consensus_thread::ConsensusEvent>>::process_event::{closure#0}",
]
PEER_DECODED_ENUMS = ("saito_core::core::msg::message::Message",)
# one symbol, one reason
R2_EXCEPTIONS = {
    (CORE + "consensus::peers::peer_collection::PeerCollection::remove_reconnected_peer", "Peer.public_key"):
        "`self.address_to_peers.remove(&peer.public_key?)` two lines above returns None when the key is absent; `peer` is an owned local "
        "(just removed from the map) that nothing modifies in between (the `?` tests a copy of the field, which the variant facts do not tie back to it)",
    (CORE + "io::network::Network::handle_handshake_response::{closure#0}", "find_peer_by_index_mut"):
        "the same index was looked up and found at the top of the function under the same peers write guard; "
        "remove_reconnected_peer in between removes only a peer with a different index",
}
def _handshake_ok_marks_connected(prog):
    """every Ok return of Peer::handle_handshake_response has assigned peer_status = Connected (so the peer that just
    authenticated can never be the Disconnected 'old instance' that remove_reconnected_peer removes)"""
    from . import c17
    from ..paths import Explorer
    from .. import gate
    hb = prog.body(c17.HR)
    if hb is None:
        return False
    marks = {bb for (b, bb, kind, e) in c17.mark_sites(prog) if b.path == c17.HR and kind == "status"}
    if not marks:
        return False
    ok_accept = gate.make_accept(hb, return_tags={"Ok"})
    found = Explorer(hb).explore(0, blocked=marks, accept=lambda x, env: "ok" if ok_accept(x, env) == "return-Ok" else None)
    return not found


R2_EXCEPTION_PRECONDITIONS = {
    (CORE + "io::network::Network::handle_handshake_response::{closure#0}", "find_peer_by_index_mut"): _handshake_ok_marks_connected,
}
R3_EXCEPTIONS = {
    (CORE + "consensus::block::Block::generate_consensus_values::{closure#0}", CORE + "consensus::block::Block::generate"):
        "the block is re-loaded from the node's own storage, where it was written after passing validation; not peer-chosen bytes",
}


PEER_ADTS = ("consensus::transaction::Transaction", "consensus::slip::Slip", "consensus::hop::Hop", "consensus::block::Block",
             "msg::ghost_chain_sync::GhostChainSync", "msg::handshake::HandshakeResponse", "msg::handshake::HandshakeChallenge",
             "msg::block_request::BlockchainRequest")
# (body, Adt.field) -> why the index is in range although no dominating length test says so (confirmed by reading)
R5_EXCEPTIONS = {
    (CORE + "consensus::block::Block::generate_consensus_values::{closure#0}", "Transaction.from"):
        "rebroadcast_tx is built two lines above by Transaction::create_rebroadcast_transaction, which always pushes one input",
    (CORE + "consensus::block::Block::generate_consensus_values::{closure#0}", "Transaction.to"):
        "rebroadcast_tx is built two lines above by Transaction::create_rebroadcast_transaction, which always pushes one output",
    (CORE + "consensus::block::Block::generate_consensus_values::{closure#0}", "Block.transactions"):
        "gt_index was recorded while enumerating this same vector a few lines above",
    (CORE + "consensus::block::Block::validate::{closure#0}", "Block.transactions"):
        "cv.gt_index / cv.ft_index were recorded by generate_consensus_values while enumerating this same vector",
    (CORE + "consensus::transaction::Transaction::get_winning_routing_node", "Transaction.path"):
        "work_by_hop has one entry per hop (one push, then one per hop after the first) and the empty path returned earlier",
    (CORE + "consensus::transaction::Transaction::validate_routing_path::{closure#0}", "Transaction.path"):
        "index comes from enumerate() over this same vector and index > 0 is tested before index - 1 is used",
    (CORE + "routing_thread::RoutingThread::process_ghost_chain::{closure#0}", "GhostChainSync.*"):
        "all six vectors are filled by GhostChainSync::deserialize in loops over the same count (its own missing length checks are the "
        "known C10/C11 finding); the loop runs over prehashes.len()",
}


def is_panic_call(t):
    if t["k"] != "call":
        return False
    n = call_name(t) or ""
    return "panicking::" in n or n.startswith("std::rt::begin_panic") or n.endswith("::panic_fmt") or n.endswith("::unreachable_display")


def arm_panics_unconditionally(body, start):
    """does every path from `start` end in a panic call, passing only macro-expansion code (log / format
    arguments) on the way?  Returns the panic block or None."""
    seen, stack, panic_bb = set(), [start], None
    while stack:
        bb = stack.pop()
        if bb in seen:
            continue
        seen.add(bb)
        if len(seen) > 80:
            return None
        t = body.term(bb)
        if is_panic_call(t):
            panic_bb = bb
            continue
        k = t["k"]
        if k in ("return", "yield", "unreachable", "resume"):
            return None
        if k == "call" and not t.get("exp"):
            return None
        for s in body.succ(bb):
            stack.append(s)
    return panic_bb


def same_getter(k1, k2):
    """two calls of the same pure accessor on the same receiver (`peer.get_public_key()` tested, then unwrapped)"""
    if k1[0] != "O" or k2[0] != "O":
        return False
    s1, s2 = k1[1], k2[1]
    return s1 == s2 and s1.startswith(("Peer::get_public_key(",))


class UnwrapScan(c10.DecoderAnalysis):
    """reuses C10's dataflow (variant knowledge from is_some()/is_ok()/is_err() tests) but reports only unwraps"""

    def _call_obligations(self, body, bb, t, ch, lz, facts, check):
        name = call_name(t) or ""
        last = name.rsplit("::", 1)[-1]
        if name.startswith(("std::option::Option::", "std::result::Result::")) and last in ("unwrap", "expect"):
            e = ch.origin(t["args"][0])
            x = e
            while x[0] in ("ref", "deref"):
                x = x[1]
            ok = False
            good = ("Ok", "Some")
            if x[0] == "local" and body.name_of(x[1]) is None:
                # an unnamed temporary holding a copy of an Option field made right before the call (`unwrap(copy self.public_key)`)
                dfs_ = body.defs(x[1])
                if len(dfs_) == 1 and dfs_[0][0] == "stmt" and dfs_[0][1] == bb:
                    from ..expr import Chaser as _ChT
                    y_ = _ChT(body).rvalue(dfs_[0][3], 0)
                    while y_[0] in ("ref", "deref"):
                        y_ = y_[1]
                    if y_[0] == "field":
                        x = y_
            y, want = x, None
            if y[0] == "via" and y[1] in ("std::option::Option::as_ref", "std::option::Option::as_mut", "std::result::Result::as_ref"):
                y = y[2]
            k, _ = c10.vkey(lz, y)
            for f in facts.values():
                if isinstance(f, c10.VFact) and f.variant in good and (f.k == k or same_getter(f.k, k)):
                    ok = True
            self.unwraps.append({"body": body, "bb": bb, "expr": x, "ok": ok, "kind": name.split("::")[2] if name.count("::") >= 2 else "?"})


def run(prog, tier, extra=None):
    res = Result("C11", "other")
    R1 = res.rule("C11.exhaustive", "no arm of a match on a peer-decoded Message panics unconditionally", floor=40)
    RS = res.rule("C11.unwrap-sites", "unwrap/expect sites examined in the bodies reachable from the handlers", floor=150)
    R2 = res.rule("C11.pre-handshake", "peer key / challenge / peer lookups are not unwrapped without a dominating check", floor=0)
    R3 = res.rule("C11.fallible-unwrapped", "results of workspace functions that can return Err are not unwrapped in handlers", floor=0)
    R4 = res.rule("C11.decoders", "no decoder that can panic on input is reachable from the handlers", floor=15)
    R6 = res.rule("C11.sized-alloc", "capacities requested in handler-reachable bodies are constants or lengths of existing collections", floor=0)
    R7 = res.rule("C11.reject-leaves-pool", "the path that disposes of a refused block removes nothing from the transaction pool and releases no input reservation", floor=5)
    R8 = res.rule("C11.fetch-quota", "every block request handed out per peer consumes one unit of that peer's quota: `batch_size - fetching_count` cannot underflow", floor=1)
    R9 = res.rule("C11.peer-assert", "no assert_eq!/assert_ne! in a handler-reachable body compares a field of a peer-decoded message", floor=0)
    R10 = res.rule("C11.ghost-chain-gate", "a GhostChain message reaches Blockchain::add_ghost_block only from a peer with a verified key and only on a lite node", floor=2)
    R5 = res.rule("C11.peer-indexing", "indexing into fields of peer-decoded structures is covered by a dominating length fact", floor=60)

    _r2_cov = {}
    core_units = [u for u in prog.units if u.crate == "saito_core"]
    cg = CallGraph(prog, core_units)
    for e in ENTRY:
        if e not in cg.bodies:
            raise LookupError("entry point not found: %s" % e[:120])
    live = cg.reachable_from(ENTRY, kinds=("call", "await", "dyn", "creates"))
    res.extra["handler_bodies_reachable"] = len(live)

    # ---- R1
    for p in sorted(live):
        b = cg.bodies[p]
        for bb, blk in enumerate(b.blocks):
            t = blk["t"]
            if t["k"] != "switch":
                continue
            d = t["discr"]
            if d[0] not in ("cp", "mv"):
                continue
            # discriminant local: defined by `discr(place)`; look at the place's type
            defs = b.defs(d[1][0])
            if len(defs) != 1 or defs[0][0] != "stmt" or defs[0][3][0] != "discr":
                continue
            pl = defs[0][3][1]
            ty = b.ty(pl[0])
            # walk projections to find the enum type: only handle direct locals / refs / payloads of Message type
            tname = ty["s"].lstrip("&").replace("mut ", "")
            if not pl[1] or all(pr == "*" for pr in pl[1]):
                pass
            if tname not in PEER_DECODED_ENUMS:
                continue
            adt = prog.adts.get(tname)
            names = {v["discr"]: v["name"] for v in adt["variants"]} if adt else {}
            for v, tgt in t["targets"] + [[None, t["otherwise"]]]:
                res.instance(R1)
                pb = arm_panics_unconditionally(b, tgt)
                if pb is not None:
                    vn = names.get(v, "_") if v is not None else "_ (catch-all)"
                    res.add(Finding(R1, "C11.exhaustive|%s|%s" % (p, vn),
                                    "%s: a peer message of variant %s reaches %s with no condition in between"
                                    % (p.replace(CORE, "")[-70:], vn, (call_name(b.term(pb)) or "").rsplit("::", 1)[-1]), b.loc(pb)))

    # ---- R2 / R3 : unwrap scan over reachable bodies
    fallible = set()
    # workspace functions constructing Err explicitly
    for p, b in cg.bodies.items():
        ret = b.ty(0)
        if not (ret["k"] == "adt" and ret["d"] == "std::result::Result"):
            continue
        for blk in b.blocks:
            for st in blk["s"]:
                if st[0] == "=" and st[2][0] == "agg" and st[2][1][0] == "adt" and st[2][1][1] == "std::result::Result" and st[2][1][2] == "Err":
                    fallible.add(p)
    # ... or propagating one with `?`
    changed = True
    while changed:
        changed = False
        for p, b in cg.bodies.items():
            if p in fallible:
                continue
            ret = b.ty(0)
            if not (ret["k"] == "adt" and ret["d"] == "std::result::Result"):
                continue
            has_q = any(t["k"] == "call" and (t.get("callee") or "").endswith("FromResidual::from_residual") for _, t in b.calls())
            if has_q and any(e.dst in fallible for e in cg.out[p] if e.kind in ("call", "await")):
                fallible.add(p)
                changed = True
    # an async fn is fallible when its coroutine is
    for p in list(fallible):
        if p.endswith("::{closure#0}"):
            fallible.add(p[: -len("::{closure#0}")])
    scan = UnwrapScan(prog)
    scan.unwraps = []
    for p in sorted(live):
        b = cg.bodies[p]
        if not any((call_name(t) or "").rsplit("::", 1)[-1] in ("unwrap", "expect") for _, t in b.calls()):
            continue
        scan.memo.clear()
        scan.analyze(b, ())
    seen = set()
    for u in scan.unwraps:
        b, bb, x = u["body"], u["bb"], u["expr"]
        key0 = (b.path, bb)
        if key0 in seen:
            continue
        seen.add(key0)
        res.instance(RS)     # every unwrap/expect site in the handlers' call graph is examined
        name = b.path.replace(CORE, "")
        # R2: what is the unwrapped value itself?
        pre = None
        y0 = strip(x)
        if y0[0] == "local":
            # a Copy field is unwrapped through a temporary (`_t = copy (*peer).public_key; unwrap(move _t)`): classify by what the
            # temporary holds
            dfs0 = b.defs(y0[1])
            if len(dfs0) == 1 and dfs0[0][0] == "stmt":
                from ..expr import Chaser as _ChR2
                y1 = strip(_ChR2(b).rvalue(dfs0[0][3], 0))
                while y1[0] in ("ref", "deref"):
                    y1 = strip(y1[1])
                if y1[0] == "field":
                    y0 = y1
        if y0[0] == "field" and y0[2].endswith("peer::Peer") and y0[3] in ("public_key", "challenge_for_peer"):
            pre = "Peer." + y0[3]
        elif y0[0] == "call" and y0[1] == CORE + "consensus::peers::peer::Peer::get_public_key":
            pre = "Peer.public_key"
        elif y0[0] == "call" and "PeerCollection::find_peer_by" in y0[1]:
            pre = y0[1].rsplit("::", 1)[-1]
        if pre:
            res.instance(R2)
            # the excepted body itself, or a helper that only ever runs as part of it (the statement moved into a private fn)
            owner = b.path
            if (owner, pre) not in R2_EXCEPTIONS:
                cov = _r2_cov.get(pre)
                if cov is None:
                    from ._helpers import helper_closure, root as _root
                    cov = _r2_cov[pre] = helper_closure(prog, [k[0] for k in R2_EXCEPTIONS if k[1] == pre])
                from ._helpers import root as _root
                covered_by = cov.get(_root(b.path))
                for k in R2_EXCEPTIONS:
                    if k[1] == pre and covered_by is not None and _root(k[0]) == covered_by:
                        owner = k[0]
            exc = R2_EXCEPTIONS.get((owner, pre))
            if exc and (owner, pre) in R2_EXCEPTION_PRECONDITIONS and not R2_EXCEPTION_PRECONDITIONS[(owner, pre)](prog):
                exc = None      # the invariant the exception rests on no longer holds
            if exc:
                res.sample({"rule": R2, "site": b.loc(bb), "value": pre, "exception": exc})
                continue
            if not u["ok"]:
                res.add(Finding(R2, "C11.pre-handshake|%s|%s" % (b.path, pre),
                                "%s unwraps %s with no dominating is_some/if-let: a peer that has not completed the handshake (or is unknown) crashes the handler"
                                % (name[-70:], pre), b.loc(bb), {"expr": show(x)[:120]}))
            else:
                res.sample({"rule": R2, "site": b.loc(bb), "value": pre, "verdict": "guarded"})
            continue
        # R3
        if u["kind"] == "Result":
            callee = None
            y = strip(x)
            if y[0] == "local":
                # a temporary kept as an atom because it was computed from re-assignable state: read its definition
                dfs = b.defs(y[1])
                if len(dfs) == 1 and dfs[0][0] == "call":
                    callee = trait_method(dfs[0][2].get("res") or dfs[0][2].get("callee") or "")
                elif len(dfs) == 1 and dfs[0][0] == "stmt":
                    from ..expr import Chaser
                    y = strip(Chaser(b).rvalue(dfs[0][3], 0))
            if y[0] == "call":
                callee = y[1]
            elif y[0] == "field" or y[0] == "downcast":
                # (poll(...) as Ready).0 of an awaited async fn
                for c in walk(y):
                    if c[0] == "call" and c[1] == "std::future::Future::poll":
                        t = b.term(c[3])
                        r = t.get("res") or ""
                        if r.endswith("::{closure#0}"):
                            callee = r
            if callee and (callee in fallible):
                res.instance(R3)
                exc = R3_EXCEPTIONS.get((b.path, trait_method(callee).replace("::{closure#0}", "")))
                if exc:
                    res.sample({"rule": R3, "site": b.loc(bb), "callee": callee[-60:], "exception": exc})
                    continue
                if not u["ok"]:
                    res.add(Finding(R3, "C11.fallible-unwrapped|%s|%s" % (b.path, trait_method(callee).replace("::{closure#0}", "")),
                                    "%s unwraps the Result of %s, which returns Err on bad peer data: the handler panics instead of rejecting"
                                    % (name[-70:], "::".join(trait_method(callee).replace("::{closure#0}", "").split("::")[-2:])), b.loc(bb)))
                else:
                    res.sample({"rule": R3, "site": b.loc(bb), "callee": callee[-60:], "verdict": "guarded"})

    # ---- R4
    c10res = c10.run(prog, tier, extra)
    bad_decoders = {}
    for f in c10res.findings:
        parts = f.key.split("|")
        if len(parts) >= 2:
            bad_decoders.setdefault(parts[1], f)
    for suffix in c10.ENTRY:
        res.instance(R4)
    for path, f in sorted(bad_decoders.items()):
        if path in live:
            chain = cg.shortest_path(ENTRY[0], lambda q: q == path) or cg.shortest_path(ENTRY[1], lambda q: q == path) or cg.shortest_path(ENTRY[2], lambda q: q == path)
            steps = [e.dst.replace(CORE, "")[-50:] for e in (chain or [])]
            res.add(Finding(R4, "C11.decoders|%s" % path,
                            "%s can panic on input bytes (C10) and is reachable from the peer-driven handlers" % path.replace(CORE, ""),
                            f.loc, {"call_path": steps[-8:]}))
    # ---- R5
    da5 = c10.DecoderAnalysis(prog)
    da5.via = {}
    used_exc = set()

    def peer_obligations(all_obl):
        out = []
        for o in all_obl:
            if o["kind"] not in ("slice", "bounds") or o["base"] is None:
                continue
            flds = [(x[2], x[3]) for x in walk(o["base"]) if x[0] == "field" and x[2].endswith(PEER_ADTS)]
            if flds:
                out.append((o, flds[0]))
        return out
    live_bodies = [prog.body(p) for p in sorted(live)]
    live_bodies = [b for b in live_bodies if b is not None and not b.is_promoted and "/test/" not in b.file and "::tests::" not in b.path]
    standalone = {}
    for b in live_bodies:
        da5.analyze(b, ())
        standalone[b.path] = peer_obligations(da5.memo_all[(b.path, (), ())])
    # a body whose indexing is not covered by its own tests may be a helper: it is then judged in the context of each call site
    # (the caller's dominating facts travel with the call, field lengths of a `&Transaction` argument included)
    needs_ctx = {p for p, obl in standalone.items() if any(not o["ok"] for o, _ in obl)}
    if needs_ctx:
        da5 = c10.DecoderAnalysis(prog)
        da5.via = {}
        da5.ctx_targets = set(needs_ctx)
        for b in live_bodies:
            da5.analyze(b, ())
    for b in live_bodies:
        p = b.path
        contexts = [v for (path, ctx, fkey), v in da5.memo_all.items() if path == p and fkey] if p in needs_ctx else []
        counters = {}
        for idx, (o, (adt, fld)) in enumerate(standalone[p]):
            res.instance(R5)
            ok = o["ok"]
            if not ok and contexts:
                key_o = (o["bb"], o["kind"], o["desc"])
                ok = all(any((c["bb"], c["kind"], c["desc"]) == key_o and c["ok"] for c in ctx_all) for ctx_all in contexts)
                if ok:
                    res.sample({"rule": R5, "site": o["loc"], "op": o["desc"][:70], "verdict": "covered at every call site of this helper (%d)" % len(contexts)})
            if ok:
                continue
            short = "%s.%s" % (adt.rsplit("::", 1)[-1], fld)
            exc = R5_EXCEPTIONS.get((p, short)) or R5_EXCEPTIONS.get((p, adt.rsplit("::", 1)[-1] + ".*"))
            if exc:
                used_exc.add((p, short))
                res.sample({"rule": R5, "site": o["loc"], "op": o["desc"][:70], "exception": exc})
                continue
            n = counters.get(short, 0)
            counters[short] = n + 1
            res.add(Finding(R5, "C11.peer-indexing|%s|%s|%d" % (p, short, n),
                            "%s indexes %s (`%s`) without a dominating length check: a peer-chosen shape of that vector panics the handler"
                            % (p.replace(CORE, "")[-70:], short, o["desc"][:70]), o["loc"]))
    res.extra["peer_indexing_exceptions_used"] = sorted("%s|%s" % (a.replace(CORE, ""), b) for a, b in used_exc)

    # ---- R6: a capacity computed from peer-influenced numbers (`with_capacity((latest - claimed_id) as usize)`) aborts the process
    # on "capacity overflow" / allocation failure, and the arithmetic feeding it is itself unchecked. In the handlers' call graph a
    # requested capacity must be a constant or linear in the lengths of collections that already exist.
    from ..linear import Linearizer as _Lz
    ALLOC_ARG = {"std::vec::Vec::with_capacity": 0, "std::vec::Vec::reserve": 1, "std::vec::Vec::reserve_exact": 1, "std::vec::from_elem": 1,
                 "std::vec::Vec::resize": 1, "std::collections::VecDeque::with_capacity": 0, "std::string::String::with_capacity": 0,
                 "std::collections::HashMap::with_capacity": 0, "ahash::AHashMap::with_capacity": 0, "std::collections::HashSet::with_capacity": 0}
    for p in sorted(live):
        b = prog.body(p)
        if b is None or b.is_promoted or "/test/" in b.file or "::tests::" in p:
            continue
        chb = lzb = None
        for bb, t in b.calls():
            n = call_name(t) or ""
            if n not in ALLOC_ARG or ALLOC_ARG[n] >= len(t["args"]):
                continue
            chb = chb or c10.StableChaser(b)
            lzb = lzb or _Lz(b, chb, prog)
            res.instance(R6)
            e = chb.origin(t["args"][ALLOC_ARG[n]])
            v = lzb.lin(e)
            ok = v is not None and all(k[0] == "len" and c > 0 for k, c in v.t.items())
            if not ok and e[0] == "call" and e[1].startswith(("saito_", "<saito_")):
                # a size computed by a workspace function of the value itself (`Vec::with_capacity(self.get_serialized_size())`):
                # judged by what that function returns - constants and lengths of the value's own collections, added up
                hb = prog.bodies.get(e[1])
                if hb is not None and not hb.is_coroutine and hb.nblocks <= 60:
                    hch = c10.StableChaser(hb)
                    hlz = _Lz(hb, hch, prog)
                    rets = [hlz.lin(hch.rvalue(d[3], 0) if d[0] == "stmt" else hch.call(d[2], d[1], 0)) for d in hb.defs(0) if d[0] in ("stmt", "call")]
                    ok = bool(rets) and all(r is not None and all(k[0] == "len" and c > 0 for k, c in r.t.items()) for r in rets)
            if ok:
                res.sample({"rule": R6, "site": b.loc(bb), "capacity": show(e)[:60], "verdict": "constant / length of an existing collection"})
            else:
                res.add(Finding(R6, "C11.sized-alloc|%s|%s" % (p, n.rsplit("::", 1)[-1]),
                                "%s requests a capacity of `%s`, which is not a constant or the length of an existing collection: a peer-influenced value "
                                "(or an underflowing difference) aborts the handler with 'capacity overflow'" % (p.replace(CORE, "")[-60:], show(e)[:60]), b.loc(bb)))

    # "local state used by honest peers is unaffected by rejected input": a block that fails validation is disposed of by
    # add_block_failure; whatever a peer put into that block, nothing reachable from there may take pooled transactions (or their
    # input reservations) away - the block's own transactions may only be offered back through the insertion point.
    from ..fields import FieldAnalysis as _FA7
    fa7 = _FA7(prog)
    ABF = CORE + "consensus::blockchain::Blockchain::add_block_failure"
    if prog.body(ABF + "::{closure#0}") is None:
        raise LookupError("Blockchain::add_block_failure not found")
    fail_reach = cg.reachable_from([ABF + "::{closure#0}"], kinds=("call", "await", "creates")) | {ABF + "::{closure#0}"}
    n7 = 0
    for p7 in sorted(fail_reach):
        b7 = cg.bodies.get(p7)
        if b7 is None or b7.is_promoted or not p7.startswith("saito_"):
            continue
        n7 += 1
        for fld in ("transactions", "utxo_map"):
            for s7 in fa7.sites(b7, "mempool::Mempool", fld):
                if s7[3] in ("remove", "replace", "unknown"):
                    res.add(Finding(R7, "C11.reject-leaves-pool|%s|%s" % (p7.replace("::{closure#0}", ""), fld),
                                    "%s, reachable from add_block_failure, removes from Mempool.%s: a block a peer made up (and the node refused) takes honest pooled "
                                    "transactions or their input reservations with it" % (p7.replace(CORE, "").replace("::{closure#0}", ""), fld), b7.loc(s7[1])))
    res.instance(R7, n7)
    # `let mut allowed_quota = self.batch_size - fetching_count;` (BlockchainSyncState::get_blocks_to_fetch_per_peer) is an unchecked
    # subtraction: it holds only while no more than batch_size entries of a peer are in state Fetching, i.e. while every transition to
    # Fetching inside the selection loop takes one unit of the quota in the same iteration. A peer controls how many hashes are
    # queued and whether fetches fail, so a transition that skips the decrement is a peer-triggered abort (debug) / unlimited fetch (release).
    SS = CORE + "consensus::blockchain_sync_state::BlockchainSyncState::get_blocks_to_fetch_per_peer"
    ssb = prog.body(SS)
    if ssb is None:
        raise LookupError("BlockchainSyncState::get_blocks_to_fetch_per_peer not found")
    F8 = {bb for bb, blk in enumerate(ssb.blocks) for st in blk["s"]
          if st[0] == "=" and st[2][0] == "agg" and st[2][1][0] == "adt" and st[2][1][1].endswith("blockchain_sync_state::BlockStatus") and st[2][1][2] == "Fetching"}
    quota_locals = {st[1][0] for blk in ssb.blocks for st in blk["s"] if st[0] == "=" and not st[1][1] and (ssb.name_of(st[1][0]) or "").endswith("quota")}
    D8 = set()
    for bb, blk in enumerate(ssb.blocks):
        for st in blk["s"]:
            if st[0] == "=" and not st[1][1] and st[1][0] in quota_locals and ssb.innermost_loop_containing([bb]) is not None:
                D8.add(bb)
    if not F8 or not D8:
        res.instance(R8)
        res.not_decided.append("C11.fetch-quota: the Fetching transition / quota counter of get_blocks_to_fetch_per_peer was not recognised")
    for f8 in sorted(F8):
        res.instance(R8)
        H8 = ssb.innermost_loop_containing([f8])
        if H8 is None:
            continue
        loop8 = ssb.natural_loop(H8)
        ok8 = any(ssb.dominates(d, f8) and ssb.dominates(H8, d) and d in loop8 for d in D8)
        if not ok8:
            outside8 = {x for x in range(len(ssb.blocks)) if x not in loop8}
            r8 = set()
            for n8 in ssb.succ(f8):
                if n8 in D8:
                    continue
                r8 |= ssb.reachable(n8, blocked=D8 | outside8 | {H8}) | {n8}
            ok8 = not any(H8 in ssb.succ(x) for x in r8 if x in loop8)
        if ok8:
            res.sample({"rule": R8, "transition": ssb.loc(f8), "verdict": "takes one unit of the quota in the same iteration"})
        else:
            res.add(Finding(R8, "C11.fetch-quota|free-transition", "get_blocks_to_fetch_per_peer moves an entry to Fetching without taking a unit of the per-peer quota in that iteration: a peer "
                            "whose fetches fail while more hashes are queued gets more than batch_size requests in flight, and the next round's `batch_size - fetching_count` underflows "
                            "(abort in a debug build, no limit at all in a release build)", ssb.loc(f8)))
    # an `assert_eq!(response.public_key, ..)` on what the peer sent is a remote kill switch (saito-rust's panic hook exits the process)
    for p9 in sorted(live):
        b9 = prog.body(p9)
        if b9 is None or b9.is_promoted or "/test/" in b9.file or "::tests::" in p9:
            continue
        ch9 = None
        for bb, t in b9.calls():
            n9 = call_name(t) or ""
            r9 = t.get("res") or ""
            is_assert = "panicking::assert_failed" in n9 or "panicking::assert_failed" in r9
            # `assert!(cond)` lowers to core::panicking::panic("assertion failed: ..") behind a switch on cond
            is_assert = is_assert or n9 in ("core::panicking::panic", "std::panicking::panic") or r9 in ("core::panicking::panic",)
            if not is_assert:
                continue
            ch9 = ch9 or c10.StableChaser(b9)
            res.instance(R9)
            ops = [ch9.origin(a) for a in t["args"][1:3]] if len(t["args"]) >= 3 else [ch9.origin(a) for a in t["args"]]
            # the comparison that guards the failure block (the operands handed to assert_failed are references to temporaries)
            cur, hops = bb, 0
            while hops < 8:
                preds = b9.pred(cur)
                if len(preds) != 1:
                    break
                cur = preds[0]
                hops += 1
                pt = b9.term(cur)
                if pt["k"] == "switch":
                    ops.append(ch9.origin(pt["discr"]))
                    break
            # pattern bindings of `match (&a, &b)` hide the operands behind named locals and tuple fields: expand definitions
            seen9, work9 = set(), list(ops)
            while work9 and len(seen9) < 60:
                e9 = work9.pop()
                for y in walk(e9):
                    if y[0] == "local" and y[1] not in seen9:
                        seen9.add(y[1])
                        for d in b9.defs(y[1]):
                            x9 = ch9.rvalue(d[3], 0) if d[0] == "stmt" else ch9.call(d[2], d[1], 0) if d[0] == "call" else None
                            if x9 is not None:
                                ops.append(x9)
                                work9.append(x9)
            # only pure wire-message types: a Slip / Transaction / Block may equally be a value the node built itself
            MSG_ADTS = tuple(a_ for a_ in PEER_ADTS if a_.startswith("msg::"))
            peer_fields = sorted({"%s.%s" % (y[2].rsplit("::", 1)[-1], y[3]) for o in ops for y in walk(o)
                                  if y[0] == "field" and any(y[2].endswith(a_) for a_ in MSG_ADTS)})
            if peer_fields:
                res.add(Finding(R9, "C11.peer-assert|%s|%s" % (p9.replace("::{closure#0}", ""), peer_fields[0]), "%s asserts on %s, which the remote peer chooses: one message aborts the handler "
                                "(and with the native panic hook, the node)" % (p9.replace(CORE, "").replace("::{closure#0}", ""), ", ".join(peer_fields)), b9.loc(bb)))
            else:
                res.sample({"rule": R9, "site": b9.loc(bb), "verdict": "no peer-decoded field among the compared operands"})
    # a ghost chain rewrites the longest-chain index wholesale (add_ghost_block marks the forged entries, the tip moves, the genesis
    # period window follows). It is the answer to a request only a lite node makes after the handshake; taken from anybody, on a full
    # node, one message moves the tip and can purge honest blocks.
    pgc = prog.body(CORE + "routing_thread::RoutingThread::process_ghost_chain::{closure#0}")
    if pgc is None:
        raise LookupError("RoutingThread::process_ghost_chain not found")
    chg = c10.StableChaser(pgc)
    from ..expr import Chaser as _ChG
    chg2 = _ChG(pgc)
    eff10 = lambda bb, env: "ghost" if (pgc.term(bb)["k"] == "call" and (call_name(pgc.term(bb)) or "").endswith("Blockchain::add_ghost_block")) else None
    key_sw = gate.bool_switch_edges(pgc, chg2, lambda e: e[0] == "call" and e[1].rsplit("::", 1)[-1] in ("is_none", "is_some") and
                                    (has_field(e, "peer::Peer", "public_key") or has_call(e, "Peer::get_public_key")))
    key_present = set()
    for sb in key_sw["sites"]:
        e_ = gate.unwrap_not(chg2.origin(pgc.term(sb)["discr"]))[0]
        is_none_ = e_[0] == "call" and e_[1].rsplit("::", 1)[-1] == "is_none"
        key_present |= {x for x in (key_sw["false"] if is_none_ else key_sw["true"]) if x[0] == sb}
    lite_sw = gate.bool_switch_edges(pgc, chg2, lambda e: e[0] == "call" and e[1].rsplit("::", 1)[-1] in ("is_spv_mode", "is_browser"))
    for label, good, why in (("peer-key", key_present, "the sender's verified key"), ("lite-node", lite_sw["true"], "this node being a lite node (spv / browser)")):
        res.instance(R10)
        f10 = Explorer(pgc).explore(0, deleted_edges=set(good), accept=eff10) if True else None
        if f10:
            res.add(Finding(R10, "C11.ghost-chain-gate|%s" % label, "RoutingThread::process_ghost_chain reaches Blockchain::add_ghost_block without a test of %s: one GhostChain "
                            "message from any connection rewrites the longest-chain index and moves the tip of the node" % why, pgc.loc(sorted(f10.values())[0][-1])))
        else:
            res.sample({"rule": R10, "gate": label, "verdict": "add_ghost_block only behind the test"})
    # a handler that waits for a lock in an inverted order never returns: lock-order findings inside handler-reachable bodies
    from ._include import include
    live_plain = {q.replace("::{closure#0}", "") for q in live}
    include(res, prog, tier, extra, "c20", ["C20.inversion", "C20.reacquire", "C20.read-reentry"],
            "a handler blocked in a lock-order cycle does not return normally",
            keep=lambda f: any(part.replace("::{closure#0}", "") in live_plain for part in f.key.split("|")[1:2]))
    # "local state used by honest peers is unaffected by rejected input": a refused transaction must leave no input reservations behind
    include(res, prog, tier, extra, "c14", ["C14.reserve", "C14.release-only-removed"],
            "input reservations are made only for a transaction that enters the pool and released only for one that left it")
    res.extra["fallible_functions"] = len(fallible)
    res.explanation = (
        "Decides absence, on the call graph reachable from the three peer-driven event handlers, of explicit crash shapes whose trigger is peer-chosen by construction: "
        "a match arm on a decoded Message that panics unconditionally, an unwrap of pre-handshake peer state or of a peer lookup without a dominating check "
        "(variant knowledge from is_some/is_ok/is_err tests), an unwrap of the Result of a workspace function that constructs Err, and reachability of a decoder with "
        "undischarged C10 obligations. It does not decide implicit panics on runtime-bounded values, stalls, isolation of honest peers' state, sequences or schedules.")
    res.assumptions = ["handler entry points are the three ProcessEvent impl methods listed in ENTRY", "dyn calls resolved by class hierarchy over saito-core"]
    return res
