"""Shared context for the must-pass-through rules anchored in Block::validate (C06, C07, C08, C13)."""
from .. import gate
from ..expr import Chaser, has_call, has_field
from ..paths import Explorer, describe_path

CORE = "saito_core::core::"
BV = CORE + "consensus::block::Block::validate::{closure#0}"


class BlockValidate:
    def __init__(self, prog):
        self.prog = prog
        self.body = prog.body(BV)
        if self.body is None:
            raise LookupError("Block::validate coroutine body not found")
        b = self.body
        self.ch = Chaser(b)
        # exempt exits named by the property/design: SPV mode, ghost block, previous block is a ghost
        spv = gate.bool_switch_edges(b, self.ch, lambda e: e[0] == "call" and e[1].endswith("Configuration::is_spv_mode"))
        self.exempt = set(spv["true"])
        self.exempt_desc = ["configs.is_spv_mode() at %s" % b.loc(x) for x in spv["sites"]]
        ghost, sites = gate.enum_compare_edges(prog, b, self.ch, "block::BlockType", "block_type", {"Ghost"})
        self.exempt |= ghost
        self.exempt_desc += ["block_type == Ghost at %s" % b.loc(x) for x, _ in sites]
        self.accept = gate.make_accept(b, return_true=True)

    def must_pass(self, good_edges, fixed_fields=None, extra_exempt=()):
        """Is an accept (return true) reachable from entry without traversing any of good_edges?
        Returns (witness path or None, states)."""
        ex = Explorer(self.body, fixed_fields=fixed_fields or {})
        found = ex.explore(0, deleted_edges=set(good_edges) | self.exempt | set(extra_exempt), accept=self.accept)
        path = None
        if found:
            path = sorted(found.items())[0][1]
        return path, ex.states

    def describe(self, path):
        return describe_path(self.body, path)

    def is_self_field(self, e, field):
        return has_field(e, "block::Block", field) and not self.is_prev(e)

    def is_prev(self, e):
        # previous_block is looked up in blockchain.blocks by previous_block_hash
        return has_call(e, "AHashMap::get") or has_call(e, "Blockchain::get_block") or has_call(e, "HashMap::get")

    def is_cv_field(self, e, field):
        return has_field(e, "ConsensusValues", field)
