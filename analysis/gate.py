"""Verdict gating: a value that says "reject" must not let an accept outcome be reached."""
from .expr import call_name
from .paths import Explorer, describe_path


def poll_payload_local(body, poll_bb):
    """local that receives `(poll_dest as Ready).0` for the poll at poll_bb -> (local, bb of that statement)"""
    t = body.term(poll_bb)
    d = t["dest"]
    if d[1]:
        return None
    for bb, blk in enumerate(body.blocks):
        for st in blk["s"]:
            if st[0] == "=" and not st[1][1] and st[2][0] == "use" and st[2][1][0] in ("mv", "cp"):
                pl = st[2][1][1]
                if pl[0] == d[0] and len(pl[1]) == 2 and pl[1][0][0] == "d" and pl[1][0][1] == "Ready" and pl[1][1][0] == "f":
                    return st[1][0], bb
    return None


def verdict_sites(body, want):
    """Call sites in `body` producing a verdict of a function for which want(name) is true.
    Yields dict(bb=call or poll block, callee=name, local=verdict local, start=bb to explore from, kind=sync|await, ty=type dict)."""
    for bb, t in body.calls():
        name = call_name(t)
        if t.get("callee") == "std::future::Future::poll":
            res = t.get("res") or ""
            if not res.endswith("::{closure#0}"):
                continue
            from .expr import trait_method
            fn = trait_method(res[: -len("::{closure#0}")])
            if not want(fn):
                continue
            pp = poll_payload_local(body, bb)
            if pp is None:
                yield {"bb": bb, "callee": fn, "local": None, "start": None, "kind": "await", "ty": None}
                continue
            yield {"bb": bb, "callee": fn, "local": pp[0], "start": pp[1], "kind": "await", "ty": body.ty(pp[0])}
        elif name and want(name):
            d = t["dest"]
            ty = body.ty(d[0])
            if ty["s"].startswith("impl std::future::Future") or ty["k"] == "coroutine":
                continue   # async fn wrapper call: the verdict appears at the poll
            if d[1] or t.get("t") is None:
                yield {"bb": bb, "callee": name, "local": None, "start": None, "kind": "sync", "ty": ty}
                continue
            yield {"bb": bb, "callee": name, "local": d[0], "start": t["t"], "kind": "sync", "ty": ty}


def make_accept(body, return_true=False, return_tags=(), effects=(), tuple0_true=False):
    """accept predicate for Explorer.explore"""
    effects = tuple(effects)
    return_tags = set(return_tags)

    def accept(bb, env):
        t = body.term(bb)
        if t["k"] == "return":
            v = env.get(0)
            if return_true and v is not False and not (isinstance(v, str)):
                return "return-maybe-true"
            if tuple0_true and v != "tuple0:false":
                return "return-tuple.0-maybe-true"
            if return_tags:
                if isinstance(v, str) and v in return_tags:
                    return "return-" + v
                if v is None:
                    return "return-unknown"
        elif t["k"] == "call" and effects:
            n = call_name(t) or ""
            for e in effects:
                if n == e or n.endswith("::" + e):
                    return "effect:" + e
        return None
    return accept


def reject_env(site, reject="false"):
    """(fixed_locals, fixed_places, env0) encoding 'the verdict says reject' for a site"""
    ty = site["ty"]
    l = site["local"]
    if ty["s"] == "bool":
        return {l: False}, {}, {}
    if ty["k"] == "tuple":
        return {}, {(l, (0,)): False}, {}
    if ty["k"] == "adt" and ty["d"] == "std::option::Option":
        return {l: "None"}, {}, {}
    if ty["k"] == "adt" and ty["d"] == "std::result::Result":
        return {l: "Err"}, {}, {}
    return None


def check_gate(body, site, accept, all_units=()):
    """paths on which the verdict at `site` rejects and an accept outcome is still reached"""
    enc = reject_env(site)
    if enc is None:
        return {"unsupported-verdict-type": []}
    fixed_locals, fixed_places, env0 = enc
    # whole-value copies of the verdict into single-definition temporaries carry the same facts
    changed = True
    while changed:
        changed = False
        roots = set(fixed_locals) | {k[0] for k in fixed_places} | set(env0)
        for blk in body.blocks:
            for st in blk["s"]:
                if st[0] == "=" and not st[1][1] and st[2][0] == "use" and st[2][1][0] in ("cp", "mv") and not st[2][1][1][1]:
                    src, dst = st[2][1][1][0], st[1][0]
                    if src in roots and dst not in roots and len(body.defs(dst)) == 1:
                        if src in fixed_locals:
                            fixed_locals[dst] = fixed_locals[src]
                        for (l, pr), v in list(fixed_places.items()):
                            if l == src:
                                fixed_places[(dst, pr)] = v
                        if src in env0:
                            env0[dst] = env0[src]
                        changed = True
    ex = Explorer(body, fixed_locals=fixed_locals, fixed_places=fixed_places)
    ex.all_units = all_units
    return ex.explore(site["start"], env0=env0, blocked={site["bb"]}, accept=accept,
                      skip_first_stmts=False), ex


def verdict_is_used(body, site):
    """does the verdict local flow anywhere at all (switch, return, call argument, store)?"""
    l = site["local"]
    for bb, blk in enumerate(body.blocks):
        for st in blk["s"]:
            if st[0] == "=":
                txt = repr(st[2])
                if "[%d, " % l in txt:
                    return True
        t = blk["t"]
        if "[%d, " % l in repr(t.get("discr", "")) or any("[%d, " % l in repr(a) for a in t.get("args", [])):
            return True
    return False


def unwrap_not(e):
    """strip negations: `!x`, `x == false`, `x != true` (and the non-negating `x == true`, `x != false`)"""
    neg = False
    while True:
        if e[0] == "un" and e[1] == "Not":
            neg = not neg
            e = e[2]
            continue
        if e[0] == "bin" and e[1] in ("Eq", "Ne"):
            a, b = e[2], e[3]
            for x, c in ((a, b), (b, a)):
                if c[0] == "const" and c[1] in (0, 1) and (c[2] in ("true", "false")):
                    is_true = c[1] == 1
                    flips = (e[1] == "Eq") != is_true     # x == false, x != true
                    if flips:
                        neg = not neg
                    e = x
                    break
            else:
                return e, neg
            continue
        return e, neg


def bool_switch_edges(body, ch, pred):
    """For every switchInt whose (possibly negated) discriminant expression satisfies pred(expr):
    returns {'true': {(bb, succ)}, 'false': {(bb, succ)}, 'sites': [bb]} - the CFG edges on which the
    expression is true resp. false."""
    out = {"true": set(), "false": set(), "sites": []}
    for bb, blk in enumerate(body.blocks):
        t = blk["t"]
        if t["k"] != "switch" or body.tyix(t["dty"])["s"] != "bool":
            continue
        e, neg = unwrap_not(ch.origin(t["discr"]))
        exact = True
        if not pred(e):
            # a predicate moved into a private helper: `fn sig_ok(&self) -> bool { verify_signature(..) }`.  The helper returning
            # true implies the wrapped test was true (the converse only if the helper has no other way to return false)
            inner, exact = helper_truth(getattr(body.unit, "program", None), e)
            if inner is None or not pred(inner):
                exact = False
                if not helper_implies(getattr(body.unit, "program", None), e, pred):
                    continue
        out["sites"].append(bb)
        zero = [tgt for v, tgt in t["targets"] if v == 0]
        one = [tgt for v, tgt in t["targets"] if v == 1]
        other = t["otherwise"]
        false_t = zero if zero else ([other] if one else [])
        true_t = one if one else ([other] if zero else [])
        for tgt in false_t:
            if neg or exact:
                out["true" if neg else "false"].add((bb, tgt))
        for tgt in true_t:
            if not neg or exact:
                out["false" if neg else "true"].add((bb, tgt))
    return out


_HELPER_TRUTH = {}


def subst_params(e, args):
    """the callee's expression with its parameters replaced by the caller's argument expressions"""
    if isinstance(e, tuple):
        if e and e[0] == "param" and isinstance(e[1], int) and 1 <= e[1] <= len(args):
            return args[e[1] - 1]
        return tuple(subst_params(x, args) for x in e)
    if isinstance(e, list):
        return [subst_params(x, args) for x in e]
    return e


def helper_implies(prog, e, pred, depth=0):
    """`e` is a call of a workspace function returning bool that can return true only through the true edge of a test satisfying
    pred (after substituting the arguments for its parameters): `if !check(..) { log; return false } true`"""
    if prog is None or e[0] != "call" or depth > 1:
        return False
    callee = prog.bodies.get(e[1])
    if callee is None or callee.is_promoted or callee.is_coroutine or callee.ty(0)["s"] != "bool" or callee.nblocks > 200:
        return False
    from .expr import Chaser
    from .paths import Explorer
    ch = Chaser(callee)
    sub = bool_switch_edges(callee, ch, lambda x: pred(subst_params(x, e[2])))
    if not sub["sites"] or not sub["true"]:
        return False
    found = Explorer(callee).explore(0, deleted_edges=sub["true"], accept=make_accept(callee, return_true=True))
    return not found


def helper_truth(prog, e, depth=0):
    """(E, exact): for a call of a workspace function returning bool whose result is `E` or the constant false, the expression E
    (in the callee's own terms) such that `call == true  =>  E == true`; exact when the callee returns E on every path"""
    if prog is None or e[0] != "call" or depth > 2:
        return None, False
    callee = prog.bodies.get(e[1])
    if callee is None or callee.is_promoted or callee.is_coroutine or callee.ty(0)["s"] != "bool" or callee.nblocks > 60:
        return None, False
    if callee.path in _HELPER_TRUTH and _HELPER_TRUTH[callee.path][0] is prog:
        return _HELPER_TRUTH[callee.path][1]
    from .expr import Chaser
    ch = Chaser(callee)
    exprs, consts = [], []
    for d in callee.defs(0):
        if d[0] == "stmt":
            x = ch.rvalue(d[3], 0)
            if x[0] == "const":
                consts.append(bool(x[1]))
            else:
                exprs.append(x)
        elif d[0] == "call":
            tt = d[2]
            exprs.append(("call", tt.get("res") or tt.get("callee") or "?", [ch.origin(a) for a in tt["args"]], d[1]))
    r = (None, False)
    if len(exprs) == 1 and True not in consts:
        x, neg = unwrap_not(exprs[0])
        if not neg:
            inner, ex2 = helper_truth(prog, x, depth + 1)
            r = (inner, ex2 and not consts) if inner is not None else (x, not consts)
    _HELPER_TRUTH[callee.path] = (prog, r)
    return r


def promoted_value(prog, body, const_expr):
    """variant tag / literal a promoted constant evaluates to (looking into the promoted body)"""
    if const_expr[0] != "const":
        return None
    disp = const_expr[2] or ""
    if "::promoted[" not in disp:
        return None
    pb = prog.bodies.get(disp) or body.unit.bodies.get(disp)
    if pb is None:
        return None
    for blk in pb.blocks:
        for st in blk["s"]:
            if st[0] == "=" and st[2][0] == "agg" and st[2][1][0] == "adt":
                return st[2][1][2]
            if st[0] == "=" and st[2][0] == "use" and st[2][1][0] == "k":
                s = st[2][1][1].get("s") or ""
                if "::" in s and "promoted" not in s:
                    return s.split("::")[-1]
                if "v" in st[2][1][1]:
                    return st[2][1][1]["v"]
            if st[0] == "=" and st[2][0] == "repeat":
                c = st[2][1]
                if c[0] == "k" and "v" in c[1]:
                    return ("repeat", c[1]["v"], st[2][2])
    return None


def enum_compare_edges(prog, body, ch, adt_suffix, field, variants_of_interest):
    """CFG edges on which `<x>.field` (an enum) is known to be one of variants_of_interest:
    PartialEq::eq/ne against a promoted constant, and switchInt on discriminant(<x>.field)."""
    from .expr import has_field
    edges = set()
    sites = []
    adt = None
    for p, a in prog.adts.items():
        if p.endswith(adt_suffix):
            adt = a
    def is_field(e):
        return has_field(e, None, field)
    for bb, blk in enumerate(body.blocks):
        t = blk["t"]
        if t["k"] != "switch":
            continue
        e0 = ch.origin(t["discr"])
        e, neg = unwrap_not(e0)
        if e[0] == "call" and e[1] in ("std::cmp::PartialEq::eq", "std::cmp::PartialEq::ne") and len(e[2]) == 2:
            a, b = e[2]
            val = None
            if is_field(a):
                val = promoted_value(prog, body, b)
            elif is_field(b):
                val = promoted_value(prog, body, a)
            if val is None or val not in variants_of_interest:
                continue
            is_eq = e[1].endswith("::eq") != neg
            zero = [tgt for v, tgt in t["targets"] if v == 0]
            other = t["otherwise"]
            # call result true -> otherwise edge (targets only list 0)
            eq_targets = [other] if is_eq else zero
            for tgt in eq_targets:
                edges.add((bb, tgt))
            sites.append((bb, val))
        elif e[0] == "discr" and is_field(e[1]) and adt is not None:
            by_discr = {v["discr"]: v["name"] for v in adt["variants"]}
            # an edge is "the field is one of variants_of_interest" only if every value that takes it is one of them
            # (`matches!(x, Ghost | Header)` sends both variants to the same block)
            by_target = {}
            for v, tgt in t["targets"]:
                by_target.setdefault(tgt, []).append(by_discr.get(v))
            for tgt, names in by_target.items():
                if tgt != t["otherwise"] and all(n in variants_of_interest for n in names):
                    edges.add((bb, tgt))
                    sites.append((bb, "|".join(str(n) for n in names)))
    return edges, sites


def compare_edges(body, ch, pred):
    """Comparisons `a == b` / `a != b` (MIR BinaryOp on scalars, PartialEq::eq/ne calls on aggregates) whose
    operand expressions satisfy pred(a, b) (tried in both orders).
    Returns {'eq': edges on which a == b, 'ne': edges on which a != b, 'sites': [bb]}."""
    out = {"eq": set(), "ne": set(), "sites": []}
    for bb, blk in enumerate(body.blocks):
        t = blk["t"]
        if t["k"] != "switch" or body.tyix(t["dty"])["s"] != "bool":
            continue
        e, neg = unwrap_not(ch.origin(t["discr"]))
        if e[0] == "bin" and e[1] in ("Eq", "Ne"):
            a, b, is_eq = e[2], e[3], e[1] == "Eq"
        elif e[0] == "call" and e[1] in ("std::cmp::PartialEq::eq", "std::cmp::PartialEq::ne") and len(e[2]) == 2:
            a, b, is_eq = e[2][0], e[2][1], e[1].endswith("::eq")
        else:
            continue
        if not (pred(a, b) or pred(b, a)):
            continue
        if neg:
            is_eq = not is_eq
        out["sites"].append(bb)
        zero = [tgt for v, tgt in t["targets"] if v == 0]
        one = [tgt for v, tgt in t["targets"] if v == 1]
        other = t["otherwise"]
        false_t = zero if zero else ([other] if one else [])
        true_t = one if one else ([other] if zero else [])
        for tgt in true_t:
            out["eq" if is_eq else "ne"].add((bb, tgt))
        for tgt in false_t:
            out["ne" if is_eq else "eq"].add((bb, tgt))
    return out


def order_edges(body, ch, pred):
    """Ordering comparisons `a < b`, `a <= b`, `a > b`, `a >= b` with pred(a, b) true for the operands as
    written. Returns list of dict(bb, op, a, b, true_edges, false_edges)."""
    out = []
    for bb, blk in enumerate(body.blocks):
        t = blk["t"]
        if t["k"] != "switch" or body.tyix(t["dty"])["s"] != "bool":
            continue
        e, neg = unwrap_not(ch.origin(t["discr"]))
        if e[0] == "bin" and e[1] in ("Lt", "Le", "Gt", "Ge"):
            op, a, b = e[1], e[2], e[3]
        elif e[0] == "call" and e[1] in ("std::cmp::PartialOrd::lt", "std::cmp::PartialOrd::le", "std::cmp::PartialOrd::gt", "std::cmp::PartialOrd::ge") and len(e[2]) == 2:
            op, a, b = e[1].rsplit("::", 1)[-1].capitalize(), e[2][0], e[2][1]
        else:
            continue
        flip = {"Lt": "Gt", "Le": "Ge", "Gt": "Lt", "Ge": "Le"}
        if pred(a, b):
            pass
        elif pred(b, a):
            op, a, b = flip[op], b, a
        else:
            continue
        if neg:
            op = {"Lt": "Ge", "Le": "Gt", "Gt": "Le", "Ge": "Lt"}[op]
        zero = [tgt for v, tgt in t["targets"] if v == 0]
        one = [tgt for v, tgt in t["targets"] if v == 1]
        other = t["otherwise"]
        false_t = zero if zero else ([other] if one else [])
        true_t = one if one else ([other] if zero else [])
        out.append({"bb": bb, "op": op, "a": a, "b": b,
                    "true_edges": {(bb, x) for x in true_t}, "false_edges": {(bb, x) for x in false_t}})
    return out


def variant_edges(body, bb, value, all_values=(0, 1)):
    """edges of the switch at bb taken exactly when the discriminant equals `value`"""
    t = body.term(bb)
    listed = {v: tgt for v, tgt in t["targets"]}
    if value in listed:
        return {(bb, listed[value])}
    if all(v in listed for v in all_values if v != value):
        return {(bb, t["otherwise"])}
    return set()


def returned_comparisons(body, ch, pred):
    """blocks in which the return place `_0` is assigned the value of an ordering comparison whose operands satisfy
    pred(a, b) (either order; op is given for the orientation in which pred(a, b) holds): [(bb, op)]"""
    out = []
    flip = {"Lt": "Gt", "Le": "Ge", "Gt": "Lt", "Ge": "Le"}
    for bb, blk in enumerate(body.blocks):
        for st in blk["s"]:
            if st[0] != "=" or st[1] != [0, []]:
                continue
            e, neg = unwrap_not(ch.rvalue(st[2], 0))
            if e[0] != "bin" or e[1] not in flip:
                continue
            op, a, b = e[1], e[2], e[3]
            if pred(a, b):
                pass
            elif pred(b, a):
                op = flip[op]
            else:
                continue
            if neg:
                op = {"Lt": "Ge", "Le": "Gt", "Gt": "Le", "Ge": "Lt"}[op]
            out.append((bb, op))
    return out
