"""Verdict gating: a value that says "reject" must not let an accept outcome be reached."""
from .expr import call_name
from .paths import Explorer, describe_path


def poll_payload_local(body, poll_bb):
    """local that receives `(poll_dest as Ready).0` for the poll at poll_bb -> (local, bb of that statement)"""
    t = body.term(poll_bb)
    d = t["dest"]
    if d[1]:
        return None
    for bb, blk in enumerate(body.blocks):
        for st in blk["s"]:
            if st[0] == "=" and not st[1][1] and st[2][0] == "use" and st[2][1][0] in ("mv", "cp"):
                pl = st[2][1][1]
                if pl[0] == d[0] and len(pl[1]) == 2 and pl[1][0][0] == "d" and pl[1][0][1] == "Ready" and pl[1][1][0] == "f":
                    return st[1][0], bb
    return None


def verdict_sites(body, want):
    """Call sites in `body` producing a verdict of a function for which want(name) is true.
    Yields dict(bb=call or poll block, callee=name, local=verdict local, start=bb to explore from, kind=sync|await, ty=type dict)."""
    for bb, t in body.calls():
        name = call_name(t)
        if t.get("callee") == "std::future::Future::poll":
            res = t.get("res") or ""
            if not res.endswith("::{closure#0}"):
                continue
            from .expr import trait_method
            fn = trait_method(res[: -len("::{closure#0}")])
            if not want(fn):
                continue
            pp = poll_payload_local(body, bb)
            if pp is None:
                yield {"bb": bb, "callee": fn, "local": None, "start": None, "kind": "await", "ty": None}
                continue
            yield {"bb": bb, "callee": fn, "local": pp[0], "start": pp[1], "kind": "await", "ty": body.ty(pp[0])}
        elif name and want(name):
            d = t["dest"]
            ty = body.ty(d[0])
            if ty["s"].startswith("impl std::future::Future") or ty["k"] == "coroutine":
                continue   # async fn wrapper call: the verdict appears at the poll
            if d[1] or t.get("t") is None:
                yield {"bb": bb, "callee": name, "local": None, "start": None, "kind": "sync", "ty": ty}
                continue
            yield {"bb": bb, "callee": name, "local": d[0], "start": t["t"], "kind": "sync", "ty": ty}


def make_accept(body, return_true=False, return_tags=(), effects=(), tuple0_true=False):
    """accept predicate for Explorer.explore"""
    effects = tuple(effects)
    return_tags = set(return_tags)

    def accept(bb, env):
        t = body.term(bb)
        if t["k"] == "return":
            v = env.get(0)
            if return_true and v is not False and not (isinstance(v, str)):
                return "return-maybe-true"
            if tuple0_true and v != "tuple0:false":
                return "return-tuple.0-maybe-true"
            if return_tags:
                if isinstance(v, str) and v in return_tags:
                    return "return-" + v
                if v is None:
                    return "return-unknown"
        elif t["k"] == "call" and effects:
            n = call_name(t) or ""
            for e in effects:
                if n == e or n.endswith("::" + e):
                    return "effect:" + e
        return None
    return accept


def reject_env(site, reject="false"):
    """(fixed_locals, fixed_places, env0) encoding 'the verdict says reject' for a site"""
    ty = site["ty"]
    l = site["local"]
    if ty["s"] == "bool":
        return {l: False}, {}, {}
    if ty["k"] == "tuple":
        return {}, {(l, (0,)): False}, {}
    if ty["k"] == "adt" and ty["d"] == "std::option::Option":
        return {l: "None"}, {}, {}
    if ty["k"] == "adt" and ty["d"] == "std::result::Result":
        return {l: "Err"}, {}, {}
    return None


def check_gate(body, site, accept, all_units=(), verdict_accepts=False):
    """paths on which the verdict at `site` rejects and an accept outcome is still reached
    (verdict_accepts=True: the same question for a bool verdict that says accept)"""
    enc = reject_env(site)
    if enc is None:
        return {"unsupported-verdict-type": []}
    fixed_locals, fixed_places, env0 = enc
    if verdict_accepts:
        if site["ty"]["s"] != "bool":
            return {"unsupported-verdict-type": []}
        fixed_locals = {site["local"]: True}
    # whole-value copies of the verdict into single-definition temporaries carry the same facts
    changed = True
    while changed:
        changed = False
        roots = set(fixed_locals) | {k[0] for k in fixed_places} | set(env0)
        for blk in body.blocks:
            for st in blk["s"]:
                if st[0] == "=" and not st[1][1] and st[2][0] == "use" and st[2][1][0] in ("cp", "mv") and not st[2][1][1][1]:
                    src, dst = st[2][1][1][0], st[1][0]
                    if src in roots and dst not in roots and len(body.defs(dst)) == 1:
                        if src in fixed_locals:
                            fixed_locals[dst] = fixed_locals[src]
                        for (l, pr), v in list(fixed_places.items()):
                            if l == src:
                                fixed_places[(dst, pr)] = v
                        if src in env0:
                            env0[dst] = env0[src]
                        changed = True
                # ... and so do tuple temporaries it is moved into: `(result, key)` matched as a whole
                if st[0] == "=" and not st[1][1] and st[2][0] == "agg" and st[2][1][0] == "tuple" and len(body.defs(st[1][0])) == 1:
                    for i, op in enumerate(st[2][2]):
                        if op[0] in ("cp", "mv") and not op[1][1] and op[1][0] in fixed_locals and (st[1][0], (i,)) not in fixed_places:
                            fixed_places[(st[1][0], (i,))] = fixed_locals[op[1][0]]
                            changed = True
    ex = Explorer(body, fixed_locals=fixed_locals, fixed_places=fixed_places)
    ex.all_units = all_units
    return ex.explore(site["start"], env0=env0, blocked={site["bb"]}, accept=accept,
                      skip_first_stmts=False), ex


SELECTING = ("filter", "partition", "find", "position", "rposition", "skip_while", "take_while", "extract_if", "filter_map", "find_map")


def closure_consumers(prog, closure_path):
    """last path segments of the calls in the defining body that receive this closure as an argument"""
    from .expr import Chaser, call_name, strip
    parent = closure_path.rsplit("::{closure", 1)[0]
    out = []
    for p, b in prog.bodies.items():
        if p != parent and not p.startswith(parent + "::{closure"):
            continue
        if p == closure_path or b.is_promoted:
            continue
        ch = None
        for bb, t in b.calls():
            for a in t["args"]:
                ch = ch or Chaser(b)
                x = strip(ch.origin(a))
                while x[0] in ("ref", "deref"):
                    x = strip(x[1])
                if x[0] == "agg" and x[1][0] == "closure" and x[1][1] == closure_path:
                    out.append((call_name(t) or "").rsplit("::", 1)[-1])
    return out


def verdict_is_used(body, site):
    """does the verdict local flow anywhere at all (switch, return, call argument, store)?"""
    l = site["local"]
    for bb, blk in enumerate(body.blocks):
        for st in blk["s"]:
            if st[0] == "=":
                txt = repr(st[2])
                if "[%d, " % l in txt:
                    return True
        t = blk["t"]
        if "[%d, " % l in repr(t.get("discr", "")) or any("[%d, " % l in repr(a) for a in t.get("args", [])):
            return True
    return False


def unwrap_not(e):
    """strip negations: `!x`, `x == false`, `x != true` (and the non-negating `x == true`, `x != false`)"""
    neg = False
    while True:
        if e[0] == "un" and e[1] == "Not":
            neg = not neg
            e = e[2]
            continue
        if e[0] == "bin" and e[1] in ("Eq", "Ne"):
            a, b = e[2], e[3]
            for x, c in ((a, b), (b, a)):
                if c[0] == "const" and c[1] in (0, 1) and (c[2] in ("true", "false")):
                    is_true = c[1] == 1
                    flips = (e[1] == "Eq") != is_true     # x == false, x != true
                    if flips:
                        neg = not neg
                    e = x
                    break
            else:
                return e, neg
            continue
        return e, neg


def subst_params(e, args):
    """the callee's expression with its parameters replaced by the caller's argument expressions"""
    if isinstance(e, tuple):
        if e and e[0] == "param" and isinstance(e[1], int) and 1 <= e[1] <= len(args):
            return args[e[1] - 1]
        return tuple(subst_params(x, args) for x in e)
    if isinstance(e, list):
        return [subst_params(x, args) for x in e]
    return e


def _bool_targets(t):
    zero = [tgt for v, tgt in t["targets"] if v == 0]
    one = [tgt for v, tgt in t["targets"] if v == 1]
    other = t["otherwise"]
    false_t = zero if zero else ([other] if one else [])
    true_t = one if one else ([other] if zero else [])
    return true_t, false_t


def _is_false(x):
    return x[0] == "const" and x[1] in (0, False)


def switch_views(body, ch, depth=0):
    """What each bool switch of `body` tells about which expression.  Yields (bb, expr, thunk) where thunk() returns
    (T, F): the successor blocks of bb on which `expr` is known to be true resp. false.  Besides the switched expression
    itself (negations stripped) this looks through
      * flags:   `let ok = a && b; if !ok {..}` - the bool local is assigned `false` or the last operand E, so ok == true => E
      * helpers: `if !self.sig_ok(h) { return false }` with `fn sig_ok(..) -> bool` in the workspace - every test the helper
                 makes (parameters replaced by the arguments) is true / false on the caller's edge whenever the helper can
                 produce that result only through the corresponding edge of the test."""
    prog = getattr(body.unit, "program", None)
    for bb, blk in enumerate(body.blocks):
        t = blk["t"]
        if t["k"] != "switch" or body.tyix(t["dty"])["s"] != "bool":
            continue
        e, neg = unwrap_not(ch.origin(t["discr"]))
        true_t, false_t = _bool_targets(t)
        if neg:
            true_t, false_t = false_t, true_t
        yield bb, e, (lambda T=tuple(true_t), F=tuple(false_t): (T, F))
        # flag local
        if e[0] == "local" and body.ty(e[1])["s"] == "bool" and len(body.defs(e[1])) > 1 and e[1] > body.argc:
            exprs = []
            has_true = False
            for d in body.defs(e[1]):
                x = ch.rvalue(d[3], 0) if d[0] == "stmt" else ch.call(d[2], d[1], 0)
                if x[0] == "const":
                    has_true = has_true or not _is_false(x)
                else:
                    exprs.append(x)
            if len(exprs) == 1 and not has_true:
                e2, neg2 = unwrap_not(exprs[0])
                if not neg2:
                    yield bb, e2, (lambda T=tuple(true_t): (T, ()))
                else:
                    yield bb, e2, (lambda T=tuple(true_t): ((), T))
                e, true_for_helper = e2, (not neg2)
            else:
                continue
        else:
            true_for_helper = True
        # helper
        if e[0] == "call" and prog is not None and depth < 2:
            callee = prog.bodies.get(e[1])
            if callee is None or callee.is_promoted or callee.is_coroutine or callee.ty(0)["s"] != "bool" or callee.nblocks > 250:
                continue
            from .expr import Chaser
            cch = Chaser(callee)
            args = e[2]
            # caller edges on which the helper returned true / false
            if e is not None and true_for_helper:
                H_T, H_F = tuple(true_t), tuple(false_t)
            else:
                H_T, H_F = (), tuple(true_t)      # only "flag true => helper returned false" is known
            # (1) tests inside the helper
            for sb, e3, th3 in switch_views(callee, cch, depth + 1):
                e3s = subst_params(e3, args)

                def thunk(sb=sb, th3=th3, callee=callee, H_T=H_T, H_F=H_F):
                    T3, F3 = th3()
                    t_edges = {(sb, x) for x in T3}
                    f_edges = {(sb, x) for x in F3}
                    T, F = set(), set()
                    if t_edges and not _reaches_return(callee, True, t_edges):
                        T |= set(H_T)         # helper true only via "test true"
                    if f_edges and not _reaches_return(callee, True, f_edges):
                        F |= set(H_T)         # helper true only via "test false"
                    if f_edges and not _reaches_return(callee, False, f_edges):
                        F |= set(H_F)         # helper false only via "test false"
                    if t_edges and not _reaches_return(callee, False, t_edges):
                        T |= set(H_F)
                    return tuple(T), tuple(F)
                yield bb, e3s, thunk
            # (2) the helper's result is the test itself: `fn ok(..) -> bool { a <= b }`, or `false` / the test
            exprs, consts = [], []
            for d in callee.defs(0):
                x = cch.rvalue(d[3], 0) if d[0] == "stmt" else cch.call(d[2], d[1], 0)
                (consts if x[0] == "const" else exprs).append(x)
            if len(exprs) == 1 and all(_is_false(c) for c in consts):
                e4, neg4 = unwrap_not(exprs[0])
                e4s = subst_params(e4, args)
                exact = not consts
                if not neg4:
                    yield bb, e4s, (lambda H_T=H_T, H_F=H_F, exact=exact: (H_T, H_F if exact else ()))
                else:
                    yield bb, e4s, (lambda H_T=H_T, H_F=H_F, exact=exact: (H_F if exact else (), H_T))


_REACH_MEMO = {}


def _reaches_return(callee, value, deleted_edges):
    """can `callee` (returning bool) return `value` without traversing any of deleted_edges?"""
    from .paths import Explorer
    key = (id(callee), value, tuple(sorted(deleted_edges)))
    if key in _REACH_MEMO:
        return _REACH_MEMO[key]

    def accept(bb, env):
        t = callee.term(bb)
        if t["k"] == "return":
            v = env.get(0)
            if v is None or bool(v) == value:
                return "return"
        return None
    r = bool(Explorer(callee).explore(0, deleted_edges=set(deleted_edges), accept=accept))
    _REACH_MEMO[key] = r
    return r


def bool_switch_edges(body, ch, pred):
    """For every switchInt whose (possibly negated) discriminant expression satisfies pred(expr) - directly, through a bool flag
    or through a workspace helper (see switch_views): returns {'true': {(bb, succ)}, 'false': {(bb, succ)}, 'sites': [bb]} -
    the CFG edges on which the expression is true resp. false."""
    out = {"true": set(), "false": set(), "sites": []}
    for bb, e, thunk in switch_views(body, ch):
        if not pred(e):
            continue
        T, F = thunk()
        if not T and not F:
            continue
        if bb not in out["sites"]:
            out["sites"].append(bb)
        out["true"] |= {(bb, x) for x in T}
        out["false"] |= {(bb, x) for x in F}
    return out


def promoted_value(prog, body, const_expr):
    """variant tag / literal a promoted constant evaluates to (looking into the promoted body)"""
    if const_expr[0] != "const":
        return None
    disp = const_expr[2] or ""
    if "::promoted[" not in disp:
        return None
    pb = prog.bodies.get(disp) or body.unit.bodies.get(disp)
    if pb is None:
        return None
    for blk in pb.blocks:
        for st in blk["s"]:
            if st[0] == "=" and st[2][0] == "agg" and st[2][1][0] == "adt":
                return st[2][1][2]
            if st[0] == "=" and st[2][0] == "use" and st[2][1][0] == "k":
                s = st[2][1][1].get("s") or ""
                if "::" in s and "promoted" not in s:
                    return s.split("::")[-1]
                if "v" in st[2][1][1]:
                    return st[2][1][1]["v"]
            if st[0] == "=" and st[2][0] == "repeat":
                c = st[2][1]
                if c[0] == "k" and "v" in c[1]:
                    return ("repeat", c[1]["v"], st[2][2])
    return None


def enum_compare_edges(prog, body, ch, adt_suffix, field, variants_of_interest):
    """CFG edges on which `<x>.field` (an enum) is known to be one of variants_of_interest:
    PartialEq::eq/ne against a promoted constant, and switchInt on discriminant(<x>.field)."""
    from .expr import has_field
    edges = set()
    sites = []
    adt = None
    for p, a in prog.adts.items():
        if p.endswith(adt_suffix):
            adt = a
    def is_field(e):
        return has_field(e, None, field)
    for bb, blk in enumerate(body.blocks):
        t = blk["t"]
        if t["k"] != "switch":
            continue
        e0 = ch.origin(t["discr"])
        e, neg = unwrap_not(e0)
        if e[0] == "call" and e[1] in ("std::cmp::PartialEq::eq", "std::cmp::PartialEq::ne") and len(e[2]) == 2:
            a, b = e[2]
            val = None
            if is_field(a):
                val = promoted_value(prog, body, b)
            elif is_field(b):
                val = promoted_value(prog, body, a)
            if val is None or val not in variants_of_interest:
                continue
            is_eq = e[1].endswith("::eq") != neg
            zero = [tgt for v, tgt in t["targets"] if v == 0]
            other = t["otherwise"]
            # call result true -> otherwise edge (targets only list 0)
            eq_targets = [other] if is_eq else zero
            for tgt in eq_targets:
                edges.add((bb, tgt))
            sites.append((bb, val))
        elif e[0] == "discr" and is_field(e[1]) and adt is not None:
            by_discr = {v["discr"]: v["name"] for v in adt["variants"]}
            # an edge is "the field is one of variants_of_interest" only if every value that takes it is one of them
            # (`matches!(x, Ghost | Header)` sends both variants to the same block)
            by_target = {}
            for v, tgt in t["targets"]:
                by_target.setdefault(tgt, []).append(by_discr.get(v))
            for tgt, names in by_target.items():
                if tgt != t["otherwise"] and all(n in variants_of_interest for n in names):
                    edges.add((bb, tgt))
                    sites.append((bb, "|".join(str(n) for n in names)))
    return edges, sites


def compare_edges(body, ch, pred):
    """Comparisons `a == b` / `a != b` (MIR BinaryOp on scalars, PartialEq::eq/ne calls on aggregates) whose
    operand expressions satisfy pred(a, b) (tried in both orders); switched on directly, kept in a bool flag or made
    inside a workspace helper (switch_views).
    Returns {'eq': edges on which a == b, 'ne': edges on which a != b, 'sites': [bb]}."""
    out = {"eq": set(), "ne": set(), "sites": []}
    for bb, e, thunk in switch_views(body, ch):
        if e[0] == "bin" and e[1] in ("Eq", "Ne"):
            a, b, is_eq = e[2], e[3], e[1] == "Eq"
        elif e[0] == "call" and e[1] in ("std::cmp::PartialEq::eq", "std::cmp::PartialEq::ne") and len(e[2]) == 2:
            a, b, is_eq = e[2][0], e[2][1], e[1].endswith("::eq")
        else:
            continue
        if not (pred(a, b) or pred(b, a)):
            continue
        T, F = thunk()
        if not T and not F:
            continue
        if bb not in out["sites"]:
            out["sites"].append(bb)
        for tgt in T:
            out["eq" if is_eq else "ne"].add((bb, tgt))
        for tgt in F:
            out["ne" if is_eq else "eq"].add((bb, tgt))
    return out


def order_edges(body, ch, pred):
    """Ordering comparisons `a < b`, `a <= b`, `a > b`, `a >= b` with pred(a, b) true for the operands as
    written (directly, through a flag or a helper). Returns list of dict(bb, op, a, b, true_edges, false_edges)."""
    out = []
    for bb, e, thunk in switch_views(body, ch):
        if e[0] == "bin" and e[1] in ("Lt", "Le", "Gt", "Ge"):
            op, a, b = e[1], e[2], e[3]
        elif e[0] == "call" and e[1] in ("std::cmp::PartialOrd::lt", "std::cmp::PartialOrd::le", "std::cmp::PartialOrd::gt", "std::cmp::PartialOrd::ge") and len(e[2]) == 2:
            op, a, b = e[1].rsplit("::", 1)[-1].capitalize(), e[2][0], e[2][1]
        else:
            continue
        flip = {"Lt": "Gt", "Le": "Ge", "Gt": "Lt", "Ge": "Le"}
        if pred(a, b):
            pass
        elif pred(b, a):
            op, a, b = flip[op], b, a
        else:
            continue
        T, F = thunk()
        if not T and not F:
            continue
        out.append({"bb": bb, "op": op, "a": a, "b": b,
                    "true_edges": {(bb, x) for x in T}, "false_edges": {(bb, x) for x in F}})
    return out


def variant_edges(body, bb, value, all_values=(0, 1)):
    """edges of the switch at bb taken exactly when the discriminant equals `value`"""
    t = body.term(bb)
    listed = {v: tgt for v, tgt in t["targets"]}
    if value in listed:
        return {(bb, listed[value])}
    if all(v in listed for v in all_values if v != value):
        return {(bb, t["otherwise"])}
    return set()


def returned_comparisons(body, ch, pred):
    """blocks in which the return place `_0` is assigned the value of an ordering comparison whose operands satisfy
    pred(a, b) (either order; op is given for the orientation in which pred(a, b) holds): [(bb, op)]"""
    out = []
    flip = {"Lt": "Gt", "Le": "Ge", "Gt": "Lt", "Ge": "Le"}
    for bb, blk in enumerate(body.blocks):
        for st in blk["s"]:
            if st[0] != "=" or st[1] != [0, []]:
                continue
            e, neg = unwrap_not(ch.rvalue(st[2], 0))
            if e[0] != "bin" or e[1] not in flip:
                continue
            op, a, b = e[1], e[2], e[3]
            if pred(a, b):
                pass
            elif pred(b, a):
                op = flip[op]
            else:
                continue
            if neg:
                op = {"Lt": "Ge", "Le": "Gt", "Gt": "Le", "Ge": "Lt"}[op]
            out.append((bb, op))
    return out


def edges_not_taken_when(prog, body, ch, adt_suffix, field, variant, depth=0, assume=(), known=None):
    """CFG edges of `body` that cannot be taken when `<x>.field` (an enum of type adt_suffix) is `variant`:
    switchInt on its discriminant, PartialEq::eq/ne against a promoted constant, `matches!`, and bool workspace helpers
    of `x` whose result is determined by the variant (evaluated recursively).  `assume` is a list of (predicate over
    expressions, truth value) taken as given (e.g. "the chain is not empty").  When `known` is a dict it receives
    {bool local: value} for call results that are determined, so that a path explorer can follow flags built from them."""
    from .expr import Chaser, has_field
    adt = None
    for p, a in prog.adts.items():
        if p.endswith(adt_suffix):
            adt = a
    if adt is None:
        return set()
    discr_of = {v["name"]: v["discr"] for v in adt["variants"]}
    want = discr_of.get(variant)
    dead = set()

    def is_field(e):
        return has_field(e, None, field)

    def truth(e):
        """value of the bool expression e for this variant, or None"""
        e, neg = unwrap_not(e)
        val = None
        for pred, v in assume:
            if pred(e):
                val = v
        if val is None and e[0] == "call" and e[1] in ("std::cmp::PartialEq::eq", "std::cmp::PartialEq::ne") and len(e[2]) == 2:
            a, b = e[2]
            other = promoted_value(prog, body, b) if is_field(a) else promoted_value(prog, body, a) if is_field(b) else None
            if other is not None:
                val = (other == variant) == e[1].endswith("::eq")
        elif val is None and e[0] == "call" and depth < 2 and e[1].startswith(("saito_", "<saito_")):
            hb = prog.bodies.get(e[1])
            if hb is not None and hb.ty(0)["s"] == "bool" and not hb.is_coroutine:
                hch = Chaser(hb)
                hknown = {}
                hd = edges_not_taken_when(prog, hb, hch, adt_suffix, field, variant, depth + 1, assume, hknown)
                from .paths import Explorer

                def can(value):
                    def accept(bb, env):
                        if hb.term(bb)["k"] == "return":
                            v = env.get(0)
                            if v is None or bool(v) == value:
                                return "return"
                        return None
                    return bool(Explorer(hb, fixed_locals=dict(hknown)).explore(0, deleted_edges=set(hd), accept=accept))
                can_t, can_f = can(True), can(False)
                if can_t != can_f:
                    val = can_t
                else:
                    # the helper's result may be the test itself: `self.transaction_type == TransactionType::Issuance`
                    vals = set()
                    for d in hb.defs(0):
                        x = hch.rvalue(d[3], 0) if d[0] == "stmt" else hch.call(d[2], d[1], 0) if d[0] == "call" else None
                        if x is None:
                            vals.add(None)
                            continue
                        if x[0] == "const":
                            continue            # constant arms are covered by the reachability test above
                        x2, xneg = unwrap_not(x)
                        v2 = None
                        for pred, v in assume:
                            if pred(x2):
                                v2 = v
                        if v2 is None and x2[0] == "call" and x2[1] in ("std::cmp::PartialEq::eq", "std::cmp::PartialEq::ne") and len(x2[2]) == 2:
                            a, b = x2[2]
                            other = promoted_value(prog, hb, b) if is_field(a) else promoted_value(prog, hb, a) if is_field(b) else None
                            if other is not None:
                                v2 = (other == variant) == x2[1].endswith("::eq")
                        vals.add(None if v2 is None else (v2 != xneg))
                    if len(vals) == 1 and None not in vals and not (can_t and can_f and any(
                            (hch.rvalue(d[3], 0) if d[0] == "stmt" else ("x",))[0] == "const" for d in hb.defs(0))):
                        val = vals.pop()
        if val is None:
            return None
        return (not val) if neg else val
    for bb, blk in enumerate(body.blocks):
        t = blk["t"]
        # results of determined calls, for flags built from them
        if known is not None and t["k"] == "call" and not t["dest"][1] and body.ty(t["dest"][0])["s"] == "bool":
            v = truth(ch.call(t, bb, 0))
            if v is not None:
                known[t["dest"][0]] = v
        if t["k"] != "switch":
            continue
        e0 = ch.origin(t["discr"])
        e, neg = unwrap_not(e0)
        succs = [tgt for _, tgt in t["targets"]] + [t["otherwise"]]
        if e[0] == "discr" and is_field(e[1]):
            listed = {v: tgt for v, tgt in t["targets"]}
            taken = listed.get(want, t["otherwise"])
            dead |= {(bb, s) for s in succs if s != taken}
            continue
        v = truth(e0)
        if v is None:
            continue
        T, F = _bool_targets(t)
        dead |= {(bb, s) for s in (F if v else T)}
    return dead
