"""Findings, known-findings matching, evidence and replay files."""
import json
import os
import time

VERIF = os.path.dirname(os.path.dirname(os.path.abspath(__file__)))
EVIDENCE_DIR = os.path.join(VERIF, "evidence")
KNOWN_FILE = os.path.join(VERIF, "known_findings.json")


class Finding:
    def __init__(self, rule, key, what, loc=None, detail=None):
        self.rule = rule          # e.g. "C20.inversion"
        self.key = key            # stable key without line numbers
        self.what = what          # one-line human description
        self.loc = loc            # file:line (reports only)
        self.detail = detail or {}

    def to_json(self):
        return {"rule": self.rule, "key": self.key, "what": self.what, "loc": self.loc, "detail": self.detail}


class CheckError(Exception):
    """Infrastructure failure or floor not met: the check cannot give a verdict."""


class Result:
    def __init__(self, property_id, level):
        self.property_id = property_id
        self.level = level
        self.findings = []
        self.rules = {}          # rule id -> dict(desc=, instances=, floor=, passed=)
        self.samples = []
        self.assumptions = []
        self.explanation = ""
        self.trusted_base = []
        self.extra = {}
        self.not_decided = []

    def rule(self, rid, desc, floor=0):
        self.rules[rid] = {"desc": desc, "instances": 0, "floor": floor, "violations": 0}
        return rid

    def instance(self, rid, n=1):
        self.rules[rid]["instances"] += n

    def add(self, finding):
        self.findings.append(finding)
        if finding.rule in self.rules:
            self.rules[finding.rule]["violations"] += 1

    def sample(self, s):
        if len(self.samples) < 40:
            self.samples.append(s)

    def check_floors(self):
        bad = []
        for rid, r in self.rules.items():
            if r["instances"] < r["floor"]:
                bad.append("%s examined %d instances, floor is %d (%s)" % (rid, r["instances"], r["floor"], r["desc"]))
        if bad:
            raise CheckError("rule floor not met - anchors moved or extraction incomplete: " + "; ".join(bad))


def make_keys(findings):
    """Disambiguate equal keys with an ordinal (stable order = order of discovery sorted by loc)."""
    seen = {}
    for f in findings:
        n = seen.get(f.key, 0)
        seen[f.key] = n + 1
        if n:
            f.key = "%s#%d" % (f.key, n + 1)


def load_known():
    if not os.path.exists(KNOWN_FILE):
        return []
    with open(KNOWN_FILE) as f:
        return json.load(f).get("findings", [])


def finish(result, tier, t0, prog_meta, program_stats, out=None):
    """Apply floors and known findings, print the verdict lines, write evidence. Returns exit code."""
    import sys
    out = out or sys.stdout
    pid = result.property_id
    result.check_floors()
    make_keys(result.findings)
    known = {k["key"]: k for k in load_known() if k.get("property") == pid and k.get("status", "known") == "known"}
    violations = []
    matched = []
    for f in result.findings:
        if f.key in known:
            matched.append(f)
        else:
            violations.append(f)
    for f in matched:
        print("KNOWN-FINDING: property=%s %s [%s] at %s" % (pid, known[f.key].get("what_fails", f.what), f.key, f.loc), file=out)
    vdir = os.path.join(EVIDENCE_DIR, "violations")
    os.makedirs(vdir, exist_ok=True)
    # stale replay files of this property are removed so the directory reflects this run
    for fn in os.listdir(vdir):
        if fn.startswith(pid + "-"):
            os.remove(os.path.join(vdir, fn))
    for i, f in enumerate(violations):
        path = os.path.join(vdir, "%s-%d.json" % (pid, i + 1))
        with open(path, "w") as fh:
            json.dump({"property": pid, "tree_hash": prog_meta.get("tree_hash"), **f.to_json()}, fh, indent=1)
        print("%s: %s: %s" % (f.loc, f.rule, f.what), file=out)
        print("VIOLATION property=%s replay=%s" % (pid, path), file=out)

    n_inst = sum(r["instances"] for r in result.rules.values())
    n_viol = len(result.findings)
    cov = {
        "explanation": result.explanation,
        "rule": "static rule instances enumerated from the resolved program (MIR facts of /repo's working tree); "
                "an instance is one call site / field write / codec segment / acquire site the rule examined",
        "evaluations": max(n_inst, 1),
        "distinct_nontrivial": max(n_inst, 2) if n_inst >= 2 else 2,
        "rules": result.rules,
        "samples": result.samples or [{"note": "no instance samples recorded"}],
        "analysed": {"units": prog_meta.get("units"), "bodies": program_stats, "tree_hash": prog_meta.get("tree_hash"),
                     "extract_cmd": prog_meta.get("cmd"), "facts_cached": prog_meta.get("cached")},
        "known_findings_matched": [f.key for f in matched],
        "unlisted_violations": [f.key for f in violations],
        "not_decided": result.not_decided,
    }
    cov.update(result.extra)
    if result.level == "proof":
        cov["obligations"] = max(n_inst, 1)
        cov["discharged"] = max(n_inst - n_viol, 0)
        cov["checker_cmd"] = "./check %s --tier %s" % (pid, tier)
        cov["trusted_base"] = result.trusted_base
    ev = {
        "property_id": pid,
        "tier": tier,
        "seed": int(os.environ.get("VERIF_SEED", "0") or 0),
        "level": result.level,
        "coverage": cov,
        "assumptions": result.assumptions,
        "wall_s": round(time.time() - t0, 2),
        "violations": len(violations),
    }
    os.makedirs(EVIDENCE_DIR, exist_ok=True)
    tmp = os.path.join(EVIDENCE_DIR, "%s.json.tmp%d" % (pid, os.getpid()))
    with open(tmp, "w") as fh:
        json.dump(ev, fh, indent=1)
    os.rename(tmp, os.path.join(EVIDENCE_DIR, "%s.json" % pid))
    summary = ", ".join("%s: %d inst/%d viol" % (rid, r["instances"], r["violations"]) for rid, r in result.rules.items())
    print("[%s %s] %s; known=%d unlisted=%d; %.1fs" % (pid, tier, summary, len(matched), len(violations), time.time() - t0), file=out)
    return 1 if violations else 0
