"""Thorough-tier self test of a rule module against broken and behaviour-preserving variants of the real code.

mutants/<Cxx>-*.diff       one broken instance each: the rule must report a finding that is not reported on the current tree
mutants/<Cxx>-eq-*.diff    behaviour-preserving edits (reordering, renaming, helper extraction, other comparison orientation):
                           the rule must report nothing new
Each patch is applied to a scratch copy of /repo's current working tree outside /repo and /verif, facts are extracted
from the copy with the same driver, and the copy, its facts and its build output are removed afterwards.
"""
import glob
import os
import shutil
import subprocess
import tempfile

from . import extract, facts, report

VERIF = os.path.dirname(os.path.dirname(os.path.abspath(__file__)))
SCRATCH_ROOT = os.path.join(extract.CACHE, "scratch")


def copy_tree(dst):
    os.makedirs(dst, exist_ok=True)
    subprocess.check_call(["rsync", "-a", "--delete", "--exclude", "/target", "--exclude", ".git", "--exclude", "node_modules",
                           extract.REPO.rstrip("/") + "/", dst + "/"])


def run_variants(pid, mod, tier, base_keys, slot=0, log=None):
    out = {"mutants": [], "equivalents": []}
    patches = sorted(glob.glob(os.path.join(VERIF, "mutants", "%s-*.diff" % pid)))
    if not patches:
        return out
    os.makedirs(SCRATCH_ROOT, exist_ok=True)
    for patch in patches:
        name = os.path.basename(patch)[:-5]
        is_eq = name.startswith(pid + "-eq-")
        rec = {"name": name}
        scratch = tempfile.mkdtemp(prefix="m-", dir=SCRATCH_ROOT)
        fdir = None
        try:
            copy_tree(scratch)
            r = subprocess.run(["git", "apply", "--whitespace=nowarn", patch], cwd=scratch, stdout=subprocess.PIPE, stderr=subprocess.STDOUT, text=True)
            if r.returncode != 0:
                rec["status"] = "stale: patch does not apply to the current tree"
                (out["equivalents"] if is_eq else out["mutants"]).append(rec)
                continue
            try:
                fdir, meta = extract.get_facts("workspace", repo=scratch, slot=slot)
            except extract.ExtractError as e:
                rec["status"] = "variant does not compile: %s" % str(e)[-200:]
                (out["equivalents"] if is_eq else out["mutants"]).append(rec)
                continue
            prog = facts.Program(fdir, meta)
            try:
                res = mod.run(prog, "quick", {})
                report.make_keys(res.findings)
                new = [f for f in res.findings if f.key not in base_keys]
                floor_err = None
                try:
                    res.check_floors()
                except report.CheckError as e:
                    floor_err = str(e)
            except (LookupError, report.CheckError) as e:
                new, floor_err = [], "rule refused the variant: %s" % e
            rec["new_findings"] = [f.key for f in new][:6]
            rec["anchor_error"] = floor_err
            if is_eq:
                rec["status"] = "silent" if not new and not floor_err else "FALSE ALARM on a behaviour-preserving edit"
                out["equivalents"].append(rec)
            else:
                rec["status"] = "detected" if (new or floor_err) else "MISSED"
                out["mutants"].append(rec)
        finally:
            shutil.rmtree(scratch, ignore_errors=True)
            if fdir:
                shutil.rmtree(fdir, ignore_errors=True)
    return out
