"""Expression chaser: where does a MIR value come from?

MIR temporaries are almost always single-definition.  `Chaser(body).origin(operand)` returns an
expression tree (nested tuples) that looks through copies/moves, reborrows, casts, `?` desugaring,
Deref/as_slice/try_into/unwrap/from_be_bytes-style pass-through calls:

  ("param", local, name)                       function argument (or captured upvar root `_1`)
  ("local", local, name)                       a local with several definitions (user variable, loop phi)
  ("const", value|None, display, def|None)     constant (named consts carry their def path)
  ("field", base, adt, field)                  field projection (adt "" for tuples)
  ("deref", base) ("index", base, idx) ("downcast", base, variant) ("cindex", base, offset)
  ("ref", base)
  ("call", callee, [args], bb)                 call result (callee = resolved path)
  ("bin", op, a, b) ("un", op, a) ("cast", a) ("discr", a) ("agg", kind, [ops]) ("len", a)
  ("yield",) ("unknown", why)
"""
from .facts import callee_of, strip_generics

# calls whose result is (a view of / the payload of) their first argument
LOOK_THROUGH = {
    "std::ops::Deref::deref", "std::ops::DerefMut::deref_mut",
    "std::convert::AsRef::as_ref", "std::convert::AsMut::as_mut",
    "std::borrow::Borrow::borrow", "std::borrow::BorrowMut::borrow_mut",
    "std::clone::Clone::clone", "std::borrow::ToOwned::to_owned",
    "std::convert::Into::into", "std::convert::From::from",
    "std::convert::TryInto::try_into", "std::convert::TryFrom::try_from",
    "std::ops::Try::branch", "std::ops::FromResidual::from_residual",
    "std::option::Option::unwrap", "std::option::Option::expect", "std::option::Option::as_ref",
    "std::option::Option::as_mut", "std::option::Option::cloned", "std::option::Option::copied",
    "std::result::Result::unwrap", "std::result::Result::expect", "std::result::Result::or",
    "std::result::Result::ok", "std::result::Result::as_ref", "std::result::Result::map_err",
    "std::vec::Vec::as_slice", "std::vec::Vec::as_mut_slice", "std::slice::to_vec", "std::slice::as_slice",
    "std::array::as_slice", "std::slice::iter", "std::slice::Iter", "std::iter::IntoIterator::into_iter",
    "std::iter::Iterator::cloned", "std::iter::Iterator::copied",
    "std::boxed::Box::new", "std::sync::Arc::new", "std::sync::Arc::clone",
    "std::pin::Pin::new_unchecked", "std::pin::Pin::new", "std::future::IntoFuture::into_future",
    "std::string::String::as_str", "std::string::String::as_bytes", "std::str::as_bytes",
}
LOOK_THROUGH |= {"std::num::from_be_bytes", "std::num::from_le_bytes", "std::num::to_be_bytes", "std::num::to_le_bytes",
                 "std::slice::iter", "std::slice::to_vec", "std::slice::iter_mut", "std::str::as_bytes"}


def _std(p):
    if p.startswith("core::"):
        return "std::" + p[6:]
    if p.startswith("alloc::"):
        return "std::" + p[7:]
    return p


def trait_method(path):
    """`<X as a::Trait<..>>::m` -> `a::Trait::m`; otherwise the path with generics stripped."""
    if not path:
        return path
    p = path
    if p.startswith("<") and " as " in p:
        depth = 0
        for i, ch in enumerate(p):
            if ch == "<":
                depth += 1
            elif ch == ">":
                depth -= 1
                if depth == 0:
                    inner, rest = p[1:i], p[i + 1:]
                    # split at the top-level " as "
                    d2 = 0
                    for j in range(len(inner)):
                        if inner[j] == "<":
                            d2 += 1
                        elif inner[j] == ">":
                            d2 -= 1
                        elif d2 == 0 and inner.startswith(" as ", j):
                            return _std(strip_generics(inner[j + 4:]) + strip_generics(rest))
                    break
    return _std(strip_generics(p))


def call_name(t):
    """normalised name used for tables: trait method for trait calls, else resolved path w/o generics"""
    callee = t.get("callee")
    if t.get("trait") and callee:
        return _std(strip_generics(callee))
    return trait_method(callee_of(t))


class Chaser:
    def __init__(self, body, max_depth=40):
        self.body = body
        self.max_depth = max_depth
        self._memo = {}

    # -- public
    def origin(self, operand, depth=0):
        k = operand[0]
        if k in ("cp", "mv"):
            return self.place(operand[1], depth)
        if k == "k":
            c = operand[1]
            return ("const", c.get("v"), c.get("s"), c.get("def") or c.get("fn"))
        return ("unknown", "operand")

    def place(self, place, depth=0):
        local, projs = place
        e = self.local(local, depth)
        for pr in projs:
            e = self.project(e, pr, depth)
        return e

    def project(self, e, pr, depth=0):
        if pr == "*":
            if e[0] == "ref":
                return e[1]
            return ("deref", e)
        tag = pr[0]
        if tag == "f":
            # field of an aggregate we can see through
            if e[0] == "agg" and e[1][0] in ("tuple", "adt", "closure", "coroutine") and pr[1] < len(e[2]):
                if e[1][0] != "adt" or len(e[2]) > pr[1]:
                    return e[2][pr[1]]
            return ("field", e, pr[2], pr[3])
        if tag == "d":
            return ("downcast", e, pr[1])
        if tag == "i":
            return ("index", e, self.local(pr[1], depth + 1))
        if tag == "c":
            return ("cindex", e, int(pr[1]))
        if tag == "s":
            return ("subslice", e, int(pr[1]), int(pr[2]))
        return e

    def local(self, l, depth=0):
        if l in self._memo:
            return self._memo[l]
        if depth > self.max_depth:
            return ("unknown", "depth")
        b = self.body
        name = b.name_of(l)
        if 1 <= l <= b.argc:
            r = ("param", l, name)
            self._memo[l] = r
            return r
        defs = b.defs(l)
        if len(defs) != 1 or b.partial_defs(l):
            # several definitions, or built piecewise: a variable, not a temporary
            if len(defs) == 1 and defs[0][0] == "stmt" and defs[0][3][0] in ("agg",) and not self._mutated_after(l):
                pass
            else:
                r = ("local", l, name)
                self._memo[l] = r
                return r
        self._memo[l] = ("local", l, name)   # cycle guard
        d = defs[0]
        if d[0] == "stmt":
            r = self.rvalue(d[3], depth + 1, d[1])
        elif d[0] == "call":
            r = self.call(d[2], d[1], depth + 1)
        else:
            r = ("yield",)
        self._memo[l] = r
        return r

    def _mutated_after(self, l):
        return bool(self.body.partial_defs(l))

    def rvalue(self, rv, depth, bb=None):
        k = rv[0]
        if k == "use":
            return self.origin(rv[1], depth)
        if k in ("ref", "raw"):
            inner = self.place(rv[2], depth)
            if inner[0] == "deref":
                return inner[1]      # &*x  ==  x
            return ("ref", inner)
        if k == "cast":
            return ("cast", self.origin(rv[2], depth), rv[1])
        if k == "bin":
            return ("bin", rv[1], self.origin(rv[2], depth), self.origin(rv[3], depth))
        if k == "un":
            if rv[1] == "PtrMetadata":
                return ("len", self.origin(rv[2], depth))
            return ("un", rv[1], self.origin(rv[2], depth))
        if k == "discr":
            return ("discr", self.place(rv[1], depth))
        if k == "agg":
            return ("agg", tuple(x if not isinstance(x, list) else tuple(x) for x in rv[1]),
                    [self.origin(o, depth) for o in rv[2]])
        if k == "repeat":
            return ("repeat", self.origin(rv[1], depth), rv[2])
        return ("unknown", k)

    def call(self, t, bb, depth):
        name = call_name(t)
        args = [self.origin(a, depth) for a in t["args"]]
        if name in LOOK_THROUGH and args:
            return ("via", name, args[0], bb)
        if name in ("std::vec::Vec::len", "std::slice::len", "std::string::String::len", "std::collections::VecDeque::len", "std::str::len"):
            return ("len", args[0]) if args else ("unknown", "len")
        return ("call", name, args, bb)


def strip(e):
    """remove via/ref/deref/cast wrappers"""
    while True:
        if e[0] == "via":
            e = e[2]
        elif e[0] in ("ref", "deref"):
            e = e[1]
        elif e[0] == "cast":
            e = e[1]
        else:
            return e


def walk(e):
    """all sub-expressions, pre-order"""
    stack = [e]
    while stack:
        x = stack.pop()
        yield x
        k = x[0]
        if k == "via":
            stack.append(x[2])
        elif k in ("ref", "deref", "len", "discr"):
            stack.append(x[1])
        elif k in ("field", "downcast", "cindex", "subslice", "cast"):
            stack.append(x[1])
        elif k == "index":
            stack.append(x[1])
            stack.append(x[2])
        elif k == "bin":
            stack.append(x[2])
            stack.append(x[3])
        elif k == "un":
            stack.append(x[2])
        elif k == "call":
            stack.extend(x[2])
        elif k == "agg":
            stack.extend(x[2])
        elif k == "repeat":
            stack.append(x[1])


def has_field(e, adt_suffix, field):
    for x in walk(e):
        if x[0] == "field" and x[3] == field and (adt_suffix is None or x[2].endswith(adt_suffix)):
            return True
    return False


def has_call(e, name_suffix):
    for x in walk(e):
        if x[0] == "call" and (x[1] == name_suffix or x[1].endswith("::" + name_suffix)):
            return True
    return False


def calls_in(e):
    return [x for x in walk(e) if x[0] == "call"]


def fields_in(e):
    return [(x[2], x[3]) for x in walk(e) if x[0] == "field"]


def field_path(e):
    """`self.a.b` style path for a pure param/field chain, else None"""
    parts = []
    x = e
    while True:
        if x[0] in ("via", ):
            x = x[2]
        elif x[0] in ("ref", "deref", "cast"):
            x = x[1]
        elif x[0] == "field":
            parts.append(x[3])
            x = x[1]
        elif x[0] == "downcast":
            x = x[1]
        elif x[0] in ("param", "local"):
            parts.append(x[2] or "_%d" % x[1])
            return ".".join(reversed(parts))
        else:
            return None


def show(e, depth=0):
    """compact rendering for reports"""
    if depth > 8:
        return "..."
    k = e[0]
    if k in ("param", "local"):
        return e[2] or "_%d" % e[1]
    if k == "const":
        return str(e[3] or e[2]).split("::")[-1] if e[3] else str(e[2])
    if k == "field":
        return "%s.%s" % (show(e[1], depth + 1), e[3])
    if k in ("ref", "deref"):
        return show(e[1], depth + 1)
    if k == "via":
        short = e[1].split("::")[-1]
        if short in ("deref", "deref_mut", "as_ref", "clone", "into", "from", "branch", "as_slice", "borrow", "to_vec", "into_iter", "iter"):
            return show(e[2], depth + 1)
        return "%s(%s)" % (short, show(e[2], depth + 1))
    if k == "call":
        return "%s(%s)" % ("::".join(e[1].split("::")[-2:]), ", ".join(show(a, depth + 1) for a in e[2]))
    if k == "bin":
        return "(%s %s %s)" % (show(e[2], depth + 1), e[1], show(e[3], depth + 1))
    if k == "un":
        return "%s(%s)" % (e[1], show(e[2], depth + 1))
    if k == "len":
        return "len(%s)" % show(e[1], depth + 1)
    if k == "cast":
        return show(e[1], depth + 1)
    if k == "downcast":
        return "%s as %s" % (show(e[1], depth + 1), e[2])
    if k == "discr":
        return "discr(%s)" % show(e[1], depth + 1)
    if k == "index":
        return "%s[%s]" % (show(e[1], depth + 1), show(e[2], depth + 1))
    if k == "cindex":
        return "%s[%d]" % (show(e[1], depth + 1), e[2])
    if k == "agg":
        return "%s{%s}" % (e[1][0], ", ".join(show(a, depth + 1) for a in e[2]))
    return k
