"""Loading of MIR-lite fact files into a Program; CFG helpers on bodies."""
import glob
import json
import os
import pickle
import re


class Unit:
    def __init__(self, doc, fname):
        self.crate = doc["crate"]
        self.crate_types = doc["crate_types"]
        self.types = doc["types"]
        self.consts = {c["path"]: c for c in doc["consts"]}
        self.adts = {a["path"]: a for a in doc["adts"]}
        self.impls = doc["impls"]
        self.fname = fname
        self.is_bin = "Executable" in self.crate_types
        self.name = "%s/%s" % (self.crate, "bin" if self.is_bin else ("cdylib" if "Cdylib" in self.crate_types else "lib"))
        self.bodies = {}
        for b in doc["bodies"]:
            body = Body(b, self)
            self.bodies[body.path] = body


class Body:
    def __init__(self, raw, unit):
        self.raw = raw
        self.unit = unit
        self.path = raw["path"]
        self.owner = raw["owner"]
        self.kind = raw["kind"]
        self.parent = raw.get("parent")
        self.root = raw.get("root")
        self.is_coroutine = raw["coroutine"]
        self.is_promoted = "::promoted[" in self.path
        self.span = raw["span"]
        self.argc = raw["argc"]
        self.locals = raw["locals"]
        self.blocks = raw["blocks"]
        self.file = self.span.split(":")[0]
        self._succ = None
        self._pred = None
        self._defs = None
        self._names = None
        self._dom = None

    # ---- basics
    def __repr__(self):
        return "<Body %s>" % self.path

    @property
    def nblocks(self):
        return len(self.blocks)

    def term(self, bb):
        return self.blocks[bb]["t"]

    def stmts(self, bb):
        return self.blocks[bb]["s"]

    def is_cleanup(self, bb):
        return self.blocks[bb]["c"]

    def ty(self, local):
        return self.unit.types[self.locals[local]]

    def tyix(self, ix):
        return self.unit.types[ix]

    def ty_str(self, local):
        return self.ty(local)["s"]

    def loc(self, bb, line=None):
        if line is None:
            line = self.term(bb).get("line")
        return "%s:%s" % (self.file, line)

    def name_of(self, local):
        if self._names is None:
            self._names = {}
            for name, val in self.raw["debug"]:
                if isinstance(val, list) and not val[1]:
                    self._names.setdefault(val[0], name)
        return self._names.get(local)

    def debug_places(self):
        """name -> place for user variables (including captured upvars)."""
        return [(n, v) for n, v in self.raw["debug"] if isinstance(v, list)]

    # ---- CFG (normal edges only: unwind and coroutine-drop edges are not "exits")
    def succ(self, bb):
        if self._succ is None:
            self._succ = [self._succ_of(i) for i in range(len(self.blocks))]
        return self._succ[bb]

    def _succ_of(self, bb):
        t = self.blocks[bb]["t"]
        k = t["k"]
        if k == "goto":
            return [t["t"]]
        if k == "switch":
            out = [x[1] for x in t["targets"]]
            out.append(t["otherwise"])
            return list(dict.fromkeys(out))
        if k in ("call", "drop", "assert", "yield"):
            return [t["t"]] if t.get("t") is not None else []
        return []

    def pred(self, bb):
        if self._pred is None:
            self._pred = [[] for _ in self.blocks]
            for i in range(len(self.blocks)):
                for s in self.succ(i):
                    self._pred[s].append(i)
        return self._pred[bb]

    def reachable(self, start=0, deleted_edges=(), blocked=()):
        """Blocks reachable from `start` (a block or iterable of blocks) along normal edges,
        not traversing `deleted_edges` (set of (from,to)) nor entering `blocked` blocks."""
        deleted = set(deleted_edges)
        blocked = set(blocked)
        starts = [start] if isinstance(start, int) else list(start)
        seen = set()
        stack = [s for s in starts if s not in blocked]
        while stack:
            b = stack.pop()
            if b in seen:
                continue
            seen.add(b)
            for s in self.succ(b):
                if (b, s) in deleted or s in blocked or s in seen:
                    continue
                stack.append(s)
        return seen

    def find_path(self, start, goals, deleted_edges=(), blocked=()):
        """Shortest block path from start to any block in goals (BFS), or None."""
        deleted = set(deleted_edges)
        blocked = set(blocked)
        goals = set(goals)
        starts = [start] if isinstance(start, int) else list(start)
        starts = [s for s in starts if s not in blocked]
        prev = {s: None for s in starts}
        queue = list(starts)
        while queue:
            b = queue.pop(0)
            if b in goals:
                path = []
                while b is not None:
                    path.append(b)
                    b = prev[b]
                return path[::-1]
            for s in self.succ(b):
                if (b, s) in deleted or s in blocked or s in prev:
                    continue
                prev[s] = b
                queue.append(s)
        return None

    def dominators(self):
        """idom-free dominator sets (bitsets as Python ints) over normal edges from block 0."""
        if self._dom is not None:
            return self._dom
        n = len(self.blocks)
        reach = self.reachable(0)
        full = (1 << n) - 1
        dom = [full] * n
        dom[0] = 1
        order = self.rpo()
        changed = True
        while changed:
            changed = False
            for b in order:
                if b == 0:
                    continue
                new = full
                for p in self.pred(b):
                    if p in reach:
                        new &= dom[p]
                new |= 1 << b
                if new != dom[b]:
                    dom[b] = new
                    changed = True
        self._dom = dom
        return dom

    def dominates(self, a, b):
        return bool(self.dominators()[b] >> a & 1)

    def natural_loop(self, h):
        """blocks of the natural loop(s) with header h (empty set if h is not a loop header)"""
        tails = [p for p in self.pred(h) if self.dominates(h, p)]
        if not tails:
            return set()
        body = {h}
        stack = list(tails)
        while stack:
            x = stack.pop()
            if x in body:
                continue
            body.add(x)
            stack.extend(p for p in self.pred(x) if p not in body)
        return body

    def innermost_loop_containing(self, blocks):
        """header of the smallest natural loop that contains all the given blocks, or None"""
        best, best_size = None, None
        for h in range(len(self.blocks)):
            lb = self.natural_loop(h)
            if lb and all(b in lb for b in blocks):
                if best is None or len(lb) < best_size:
                    best, best_size = h, len(lb)
        return best

    def rpo(self):
        seen = set()
        out = []
        stack = [(0, iter(self.succ(0)))]
        seen.add(0)
        while stack:
            b, it = stack[-1]
            adv = False
            for s in it:
                if s not in seen:
                    seen.add(s)
                    stack.append((s, iter(self.succ(s))))
                    adv = True
                    break
            if not adv:
                out.append(b)
                stack.pop()
        return out[::-1]

    # ---- definitions
    def defs(self, local):
        """Definition sites of a whole local: list of ('stmt', bb, idx, rvalue) / ('call', bb, term) /
        ('yield', bb, term).  Assignments through projections are in partial_defs."""
        if self._defs is None:
            self._index_defs()
        return self._defs.get(local, [])

    def partial_defs(self, local):
        if self._defs is None:
            self._index_defs()
        return self._pdefs.get(local, [])

    def _index_defs(self):
        self._defs = {}
        self._pdefs = {}
        for bb, blk in enumerate(self.blocks):
            for i, st in enumerate(blk["s"]):
                if st[0] == "=":
                    pl = st[1]
                    if not pl[1]:
                        self._defs.setdefault(pl[0], []).append(("stmt", bb, i, st[2]))
                    else:
                        self._pdefs.setdefault(pl[0], []).append(("stmt", bb, i, st))
                elif st[0] == "setd":
                    self._pdefs.setdefault(st[1][0], []).append(("setd", bb, i, st))
            t = blk["t"]
            if t["k"] == "call":
                pl = t["dest"]
                if not pl[1]:
                    self._defs.setdefault(pl[0], []).append(("call", bb, t))
                else:
                    self._pdefs.setdefault(pl[0], []).append(("call", bb, None, t))
            elif t["k"] == "yield":
                pl = t["resume_arg"]
                if not pl[1]:
                    self._defs.setdefault(pl[0], []).append(("yield", bb, t))

    def calls(self):
        for bb, blk in enumerate(self.blocks):
            t = blk["t"]
            if t["k"] == "call":
                yield bb, t

    def return_blocks(self):
        return [i for i, b in enumerate(self.blocks) if b["t"]["k"] == "return"]


def callee_of(t):
    """Best name for the function a call terminator runs: the resolved instance if any."""
    return t.get("res") or t.get("callee")


_GENERIC = re.compile(r"::<[^<>]*(?:<[^<>]*(?:<[^<>]*>[^<>]*)*>[^<>]*)*>")


def strip_generics(path):
    """`tokio::sync::RwLock::<T>::read::{closure#0}` -> `tokio::sync::RwLock::read::{closure#0}`."""
    prev = None
    while prev != path:
        prev = path
        path = _GENERIC.sub("", path)
    return path


class Program:
    def __init__(self, facts_dir, meta=None, replace=None):
        """replace: {crate name: other facts dir} - take that crate's unit(s) from another extraction
        (e.g. saito_core compiled without the `with-rayon` feature)"""
        self.facts_dir = facts_dir
        self.meta = meta or {}
        self.units = []
        replace = replace or {}
        files = []
        for f in sorted(glob.glob(os.path.join(facts_dir, "*.json"))):
            base = os.path.basename(f)
            if base == "meta.json" or any(base.startswith(c + "-") for c in replace):
                continue
            files.append(f)
        for c, d in replace.items():
            files += sorted(x for x in glob.glob(os.path.join(d, c + "-*.json")))
        for f in sorted(files, key=os.path.basename):
            with open(f) as fh:
                self.units.append(Unit(json.load(fh), os.path.basename(f)))
        self.bodies = {}
        self.dups = []
        for u in self.units:
            u.program = self
            for p, b in u.bodies.items():
                if p in self.bodies:
                    self.dups.append(p)
                    # keep the library's definition; binaries keep theirs reachable via unit
                    if u.is_bin:
                        continue
                self.bodies[p] = b
        self.consts = {}
        self.adts = {}
        self.adt_unit = {}
        for u in self.units:
            self.consts.update(u.consts)
            self.adts.update(u.adts)
            for p in u.adts:
                self.adt_unit[p] = u

    def body(self, path):
        return self.bodies.get(path)

    def find(self, suffix, coroutine=None):
        """Bodies whose path equals or ends with `::suffix` (promoted bodies excluded)."""
        out = []
        for p, b in self.bodies.items():
            if b.is_promoted:
                continue
            if p == suffix or p.endswith("::" + suffix):
                out.append(b)
        return out

    def one(self, suffix):
        r = self.find(suffix)
        if len(r) != 1:
            raise LookupError("expected exactly one body matching %r, found %d: %s" % (suffix, len(r), [b.path for b in r][:5]))
        return r[0]

    def unit_of_crate(self, crate, bin=False):
        for u in self.units:
            if u.crate == crate and u.is_bin == bin:
                return u
        return None

    def all_bodies(self, include_promoted=False):
        for u in self.units:
            for b in u.bodies.values():
                if b.is_promoted and not include_promoted:
                    continue
                yield b

    def const(self, suffix):
        for p, c in self.consts.items():
            if p == suffix or p.endswith("::" + suffix):
                return c["v"]
        return None

    def stats(self):
        return {u.name: sum(1 for b in u.bodies.values() if not b.is_promoted) for u in self.units}


def load_program(facts_dir, meta=None):
    cache = os.path.join(facts_dir, "program.pickle")
    if os.path.exists(cache):
        try:
            with open(cache, "rb") as f:
                return pickle.load(f)
        except Exception:
            pass
    prog = Program(facts_dir, meta)
    try:
        tmp = cache + ".tmp%d" % os.getpid()
        with open(tmp, "wb") as f:
            pickle.dump(prog, f, protocol=pickle.HIGHEST_PROTOCOL)
        os.rename(tmp, cache)
    except Exception:
        pass
    return prog
