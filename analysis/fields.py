"""Field mutation sites: who changes the membership/value of (ADT, field)?

A site is one of
  ("assign", bb, idx)                       direct assignment to the field (or a sub-place of it)
  ("call", bb, name, klass)                 a `&mut` to the field (or a sub-place) reaches method `name`
where klass is insert / remove / replace / elem (mutates elements, not membership) / read / unknown.
`&mut` handed to a body of the analysed crates is classified by that body's own mutations of the
parameter (summaries, memoised, recursion-guarded).
"""
from .expr import call_name

REMOVE = {"remove", "remove_entry", "retain", "retain_mut", "drain", "clear", "take", "pop", "pop_front", "pop_back",
          "truncate", "swap_remove", "split_off", "extract_if", "drain_filter", "par_drain", "remove_item", "dedup", "dedup_by_key",
          "shift_remove", "swap_remove_entry", "pop_first", "pop_last"}
INSERT = {"insert", "push", "push_back", "push_front", "extend", "extend_from_slice", "entry", "or_insert", "or_insert_with",
          "or_default", "par_extend", "insert_unique_unchecked", "try_insert", "resize", "resize_with", "reserve"}
REPLACE = {"replace", "swap", "set", "fill", "clone_from", "copy_from_slice", "sort", "sort_by", "sort_by_key", "sort_unstable",
           "sort_unstable_by", "reverse", "shuffle", "rotate_left", "rotate_right", "make_contiguous"}
ELEM = {"iter_mut", "get_mut", "values_mut", "par_iter_mut", "index_mut", "as_mut", "as_mut_slice", "first_mut", "last_mut",
        "front_mut", "back_mut", "deref_mut", "and_modify", "borrow_mut", "into_par_iter", "into_iter", "chunks_mut", "split_at_mut"}
READ = {"len", "iter", "get", "contains_key", "contains", "is_empty", "keys", "values", "first", "last", "front", "back",
        "capacity", "as_slice", "as_ref", "deref", "index", "borrow", "clone", "to_vec", "par_iter", "binary_search",
        "eq", "ne", "fmt", "hash", "cmp", "partial_cmp", "starts_with", "ends_with", "is_some", "is_none", "as_str"}
# functions through which a &mut flows to the result (the result is a &mut into the same storage)
PASS = {"std::ops::DerefMut::deref_mut", "std::convert::AsMut::as_mut", "std::ops::IndexMut::index_mut",
        "std::borrow::BorrowMut::borrow_mut", "std::option::Option::as_mut", "std::vec::Vec::as_mut_slice",
        "std::option::Option::unwrap", "std::option::Option::expect", "std::result::Result::unwrap",
        "std::collections::HashMap::get_mut", "ahash::AHashMap::get_mut", "std::slice::get_mut",
        "std::collections::VecDeque::get_mut", "std::slice::iter_mut", "std::collections::HashMap::entry",
        "ahash::AHashMap::entry", "std::collections::hash_map::Entry::or_default", "std::collections::hash_map::Entry::or_insert",
        "std::iter::IntoIterator::into_iter", "std::iter::Iterator::next", "std::collections::VecDeque::iter_mut",
        "std::collections::HashMap::values_mut", "std::collections::HashMap::iter_mut", "std::ops::Try::branch"}


def classify_method(name, arg_index=0):
    last = name.rsplit("::", 1)[-1]
    if name in ("std::mem::take", "std::mem::replace"):
        return "remove" if name.endswith("take") else "replace"
    if name == "std::mem::swap":
        return "replace"
    if last == "append":
        return "insert" if arg_index == 0 else "remove"
    if last in REMOVE:
        return "remove"
    if last in INSERT:
        return "insert"
    if last in REPLACE:
        return "replace"
    if last in ELEM:
        return "elem"
    if last in READ:
        return "read"
    return "unknown"


def place_has_field(place, adt_suffix, field):
    for i, pr in enumerate(place[1]):
        if isinstance(pr, list) and pr[0] == "f" and pr[3] == field and pr[2].endswith(adt_suffix):
            return i
    return None


class FieldAnalysis:
    def __init__(self, prog):
        self.prog = prog
        self._param_memo = {}
        self._upvars = {}
        self._all = {}

    # -- closures capture disjoint fields (edition 2021): `self.unspent_slips` inside a closure is the upvar
    #    `(*_1)._ref__self__unspent_slips`, with no Wallet field projection. Resolve upvars through the parent.
    def upvar_fields(self, body):
        """{upvar index: [(adt, field), ...] path of the captured place} for a (non-coroutine) closure body"""
        if body.path in self._upvars:
            return self._upvars[body.path]
        out = {}
        self._upvars[body.path] = out
        parent = self.prog.bodies.get(body.parent) if body.kind == "Closure" and body.parent else None
        if parent is None:
            return out
        from .expr import Chaser, walk
        ch = Chaser(parent)
        for blk in parent.blocks:
            for st in blk["s"]:
                if st[0] == "=" and st[2][0] == "agg" and st[2][1][0] in ("closure", "coroutine") and st[2][1][1] == body.path:
                    for i, op in enumerate(st[2][2]):
                        e = ch.origin(op)
                        path = []
                        for x in walk(e):
                            if x[0] == "field":
                                path.append((x[2], x[3]))
                        path.reverse()
                        # expand captured upvars of the parent itself
                        full = []
                        for (adt, f) in path:
                            if adt == parent.path:
                                idx = self._upvar_index(parent, f)
                                full.extend(self.upvar_fields(parent).get(idx, []))
                            else:
                                full.append((adt, f))
                        out[i] = full
        return out

    def _upvar_index(self, body, name):
        for n, pl in body.debug_places():
            pass
        for blk in body.blocks:
            for st in blk["s"]:
                for pl in _places_of_stmt(st):
                    for pr in pl[1]:
                        if isinstance(pr, list) and pr[0] == "f" and pr[2] == body.path and pr[3] == name:
                            return pr[1]
        return None

    def fields_of_place(self, body, place):
        """[(adt, field)] along a place, with closure upvars expanded to the captured place"""
        out = []
        for pr in place[1]:
            if isinstance(pr, list) and pr[0] == "f":
                if pr[2] == body.path and place[0] == 1 and body.kind == "Closure" and not body.is_coroutine:
                    out.extend(self.upvar_fields(body).get(pr[1], []))
                else:
                    out.append((pr[2], pr[3]))
        return out

    def has_field(self, body, place, adt_suffix, field):
        """None, or 'whole' / 'sub' when the place is exactly the field / a sub-place of it"""
        fs = self.fields_of_place(body, place)
        for i, (adt, f) in enumerate(fs):
            if f == field and adt.endswith(adt_suffix):
                if i == len(fs) - 1 and not any(isinstance(pr, list) and pr[0] in ("i", "c", "s", "d") for pr in place[1]):
                    return "whole"
                return "sub"
        return None

    def sites(self, body, adt_suffix, field, through_self=False):
        """mutation-relevant sites of (adt, field) in one body.  through_self: a call that hands the whole object (`&mut self`)
        to a workspace body which itself mutates the field counts as a site of the caller (so that moving a loop into a
        private helper does not hide the mutation), classified by the strongest thing the callee does."""
        out = self._sites(body, adt_suffix, field)
        if through_self:
            out = list(out)
            for bb, t in body.calls():
                tgt = self._callee_body(t)
                if tgt is None or tgt.path == body.path:
                    continue
                # the callee receives the object itself (not the field): a parameter whose type is a reference to the ADT
                hands_object = False
                for i in range(1, min(tgt.argc, len(t["args"])) + 1):
                    ty = tgt.ty(i)
                    base = ty
                    while base["k"] in ("ref", "refmut"):
                        base = tgt.tyix(base["i"])
                    if ty["k"] == "refmut" and base["k"] == "adt" and base.get("d", "").endswith(adt_suffix):
                        hands_object = True
                if not hands_object:
                    continue
                k = self._callee_field_kind(tgt, adt_suffix, field, 0)
                if k in ("insert", "remove", "replace", "unknown"):
                    out.append(("call", bb, tgt.path.replace("::{closure#0}", ""), k))
        return out

    def _callee_body(self, t):
        res = t.get("res") or t.get("callee")
        tgt = self.prog.bodies.get(res) if res else None
        if tgt is None or tgt.is_promoted:
            return None
        cor = self.prog.bodies.get(tgt.path + "::{closure#0}")
        if cor is not None and cor.is_coroutine:
            return cor
        return tgt

    def _callee_field_kind(self, tgt, adt_suffix, field, depth):
        key = (tgt.path, adt_suffix, field)
        if key in self._all:
            return self._all[key]
        self._all[key] = "read"
        if depth > 4:
            return "read"
        kinds = [x[3] for x in self._sites(tgt, adt_suffix, field)]
        # closures defined in the callee (`items.iter().for_each(|i| { self.map.remove(..); })`) act on its behalf
        base = tgt.path[: -len("::{closure#0}")] if tgt.is_coroutine and tgt.path.endswith("::{closure#0}") else tgt.path
        for p2, cb in self.prog.bodies.items():
            if p2.startswith(tgt.path + "::{closure") and not cb.is_promoted:
                kinds += [x[3] for x in self._sites(cb, adt_suffix, field)]
        for bb, t in tgt.calls():
            sub = self._callee_body(t)
            if sub is None or sub.path == tgt.path:
                continue
            for i in range(1, min(sub.argc, len(t["args"])) + 1):
                ty = sub.ty(i)
                base = ty
                while base["k"] in ("ref", "refmut"):
                    base = sub.tyix(base["i"])
                if ty["k"] == "refmut" and base["k"] == "adt" and base.get("d", "").endswith(adt_suffix):
                    kinds.append(self._callee_field_kind(sub, adt_suffix, field, depth + 1))
                    break
        r = strongest([k for k in kinds if k in ("insert", "remove", "replace", "unknown")]) if any(
            k in ("insert", "remove", "replace", "unknown") for k in kinds) else "read"
        self._all[key] = r
        return r

    def _sites(self, body, adt_suffix, field):
        out = []
        roots = set()
        for bb, blk in enumerate(body.blocks):
            for i, st in enumerate(blk["s"]):
                if st[0] != "=":
                    continue
                w = self.has_field(body, st[1], adt_suffix, field)
                if w is not None:
                    out.append(("assign", bb, i, "replace" if w == "whole" else "elem"))
                rv = st[2]
                if rv[0] in ("ref", "raw") and rv[1] in ("mut", "Mut"):
                    w2 = self.has_field(body, rv[2], adt_suffix, field)
                    if w2 is not None:
                        roots.add((st[1][0], w2 == "sub"))
                elif rv[0] == "use" and rv[1][0] in ("cp", "mv"):
                    w2 = self.has_field(body, rv[1][1], adt_suffix, field)
                    if w2 == "whole":
                        ty = body.ty(st[1][0])
                        if ty["k"] == "refmut" and not st[1][1]:
                            # a captured `&mut field` upvar copied/reborrowed into a local
                            roots.add((st[1][0], False))
                        elif rv[1][0] == "mv" and ty["k"] not in ("ref", "refmut"):
                            # the field is moved out wholesale (e.g. `let txs = self.transactions;`)
                            out.append(("assign", bb, i, "remove"))
            t = blk["t"]
            if t["k"] == "call":
                w = self.has_field(body, t["dest"], adt_suffix, field)
                if w is not None:
                    out.append(("assign", bb, None, "replace" if w == "whole" else "elem"))
        for (root, sub) in roots:
            for s in self.uses_of_mut_ref(body, root):
                if sub and s[3] in ("insert", "remove", "replace"):
                    s = (s[0], s[1], s[2], "elem")
                out.append(s)
        return out

    def uses_of_mut_ref(self, body, root, depth=0):
        """call sites reached by the &mut held in local `root`: [("call", bb, name, klass)]"""
        aliases = {root}
        changed = True
        out = {}
        while changed:
            changed = False
            for bb, blk in enumerate(body.blocks):
                for st in blk["s"]:
                    if st[0] != "=" or st[1][1]:
                        continue
                    d = st[1][0]
                    if d in aliases:
                        continue
                    rv = st[2]
                    src = None
                    if rv[0] == "use" and rv[1][0] in ("cp", "mv"):
                        src = rv[1][1][0]
                    elif rv[0] in ("ref", "raw"):
                        src = rv[2][0]
                    elif rv[0] == "cast" and rv[2][0] in ("cp", "mv"):
                        src = rv[2][1][0]
                    if src in aliases:
                        aliases.add(d)
                        changed = True
                t = blk["t"]
                if t["k"] != "call":
                    continue
                for ai, a in enumerate(t["args"]):
                    if a[0] in ("cp", "mv") and a[1][0] in aliases:
                        name = call_name(t) or "?"
                        if name in PASS or name.rsplit("::", 1)[-1] in ("deref_mut", "as_mut", "index_mut", "get_mut", "iter_mut", "unwrap", "expect"):
                            d = t["dest"][0]
                            if d not in aliases:
                                aliases.add(d)
                                changed = True
                            klass = "elem" if name.rsplit("::", 1)[-1] in ELEM else None
                            if klass and (bb, name) not in out:
                                out[(bb, name)] = ("call", bb, name, "elem")
                            continue
                        klass = self.classify_call(t, name, ai, depth)
                        out[(bb, name)] = ("call", bb, name, klass)
        return list(out.values())

    def classify_call(self, t, name, arg_index, depth):
        res = t.get("res")
        tgt = self.prog.bodies.get(res) if res else None
        if tgt is None and t.get("callee"):
            tgt = self.prog.bodies.get(t["callee"])
        if tgt is not None and not tgt.is_promoted:
            return self.param_mutation(tgt, arg_index + 1, depth + 1)
        return classify_method(name, arg_index)

    def param_mutation(self, body, param_local, depth=0):
        """strongest classification of what `body` does through its &mut parameter"""
        key = (body.path, param_local)
        if key in self._param_memo:
            return self._param_memo[key]
        if depth > 6:
            return "unknown"
        self._param_memo[key] = "read"
        root = param_local
        # async fn wrapper: the parameter is moved into the coroutine; analyse the coroutine's upvar
        if body.raw.get("asyncness"):
            cor = self.prog.bodies.get(body.path + "::{closure#0}")
            if cor is not None:
                k = self._upvar_mutation(cor, param_local - 1, depth)
                self._param_memo[key] = k
                return k
        kinds = [s[3] for s in self.uses_of_mut_ref(body, root, depth)]
        k = strongest(kinds)
        self._param_memo[key] = k
        return k

    def _upvar_mutation(self, cor, upvar_index, depth):
        roots = set()
        for bb, blk in enumerate(cor.blocks):
            for st in blk["s"]:
                if st[0] == "=" and not st[1][1] and st[2][0] == "use" and st[2][1][0] in ("cp", "mv"):
                    pl = st[2][1][1]
                    if pl[0] == 1 and len(pl[1]) == 1 and isinstance(pl[1][0], list) and pl[1][0][0] == "f" and pl[1][0][1] == upvar_index:
                        roots.add(st[1][0])
        kinds = []
        for r in roots:
            kinds += [s[3] for s in self.uses_of_mut_ref(cor, r, depth)]
        return strongest(kinds)


def strongest(kinds):
    for k in ("unknown", "remove", "replace", "insert", "elem", "read"):
        if k in kinds:
            if k == "remove" and "insert" in kinds:
                return "replace"
            return k
    return "read"


def _places_of_stmt(st):
    if st[0] != "=":
        return
    yield st[1]
    rv = st[2]
    k = rv[0]
    if k == "use" and rv[1][0] in ("cp", "mv"):
        yield rv[1][1]
    elif k in ("ref", "raw"):
        yield rv[2]
    elif k == "cast" and rv[2][0] in ("cp", "mv"):
        yield rv[2][1]
    elif k == "bin":
        for o in (rv[2], rv[3]):
            if o[0] in ("cp", "mv"):
                yield o[1]
    elif k == "un" and rv[2][0] in ("cp", "mv"):
        yield rv[2][1]
    elif k == "agg":
        for o in rv[2]:
            if o[0] in ("cp", "mv"):
                yield o[1]
    elif k == "discr":
        yield rv[1]
