"""Linear bounds for decoder totality (C10).

Values are linear forms  c0 + sum(ci * leaf)  over non-negative leaves (usize/u32 values, buffer lengths).
A forward "available facts" dataflow (meet = intersection) carries inequalities  E >= 0  established by the
branch conditions that dominate a point; an obligation  G >= 0  is discharged when G can be written as a
non-negative combination of available facts plus a form with only non-negative coefficients.  This is the
inequality-graph argument of ABCD (Bodik, Gupta, Sarkar, PLDI 2000) restricted to what these decoders need;
no SMT solver is involved.
"""
from fractions import Fraction

from .expr import Chaser, call_name, strip


class Lin:
    __slots__ = ("c", "t", "deps")

    def __init__(self, c=0, t=None, deps=None):
        self.c = Fraction(c)
        self.t = dict(t or {})
        self.deps = frozenset(deps or ())

    def __add__(self, o):
        t = dict(self.t)
        for k, v in o.t.items():
            t[k] = t.get(k, 0) + v
            if t[k] == 0:
                del t[k]
        return Lin(self.c + o.c, t, self.deps | o.deps)

    def scale(self, k):
        k = Fraction(k)
        if k == 0:
            return Lin(0)
        return Lin(self.c * k, {a: b * k for a, b in self.t.items()}, self.deps)

    def __sub__(self, o):
        return self + o.scale(-1)

    def is_const(self):
        return not self.t

    def nonneg(self):
        return self.c >= 0 and all(v >= 0 for v in self.t.values())

    def key(self):
        return (self.c, tuple(sorted((repr(k), v) for k, v in self.t.items())))

    def __repr__(self):
        parts = []
        for k, v in sorted(self.t.items(), key=lambda kv: repr(kv[0])):
            name = leaf_name(k)
            parts.append(("%s*%s" % (v, name)) if v != 1 else name)
        if self.c != 0 or not parts:
            parts.append(str(self.c))
        return " + ".join(parts)


def leaf_name(k):
    if k[0] == "len":
        return "len(%s)" % (leaf_name(k[1]) if isinstance(k[1], tuple) else k[1])
    if k[0] == "O":
        return k[1][:40]
    if k[0] == "L":
        return k[2] or "_%d" % k[1]
    if k[0] == "C":
        return "%s@bb%d" % (k[2], k[1])
    return str(k)


class Linearizer:
    """expression tree (from Chaser) -> Lin"""

    def __init__(self, body, chaser=None, prog=None):
        self.body = body
        self.prog = prog
        self.ch = chaser or Chaser(body)
        self._mut = None
        self.intrinsic = {}

    def immutable_root(self, local):
        """a local that is never mutably borrowed nor assigned through a projection"""
        if self._mut is None:
            self._mut = set()
            for blk in self.body.blocks:
                for st in blk["s"]:
                    if st[0] == "=" and st[2][0] in ("ref", "raw") and st[2][1] in ("mut", "Mut"):
                        self._mut.add(st[2][2][0])
                    if st[0] == "=" and st[1][1]:
                        self._mut.add(st[1][0])
        return local not in self._mut

    def root_key(self, e):
        """buffer identity for `len`: a param / local, looking through views"""
        e = strip(e)
        if e[0] in ("param", "local"):
            return ("L", e[1], e[2])
        return None

    def length(self, e):
        """Lin for the length of the buffer expression e (None if unknown)"""
        x = e
        while x[0] in ("ref", "deref", "cast") or (x[0] == "via" and x[1] in (
                "std::ops::Deref::deref", "std::vec::Vec::as_slice", "std::slice::to_vec", "std::clone::Clone::clone",
                "std::convert::AsRef::as_ref", "std::borrow::ToOwned::to_owned", "std::convert::Into::into",
                "std::convert::From::from", "std::borrow::Borrow::borrow", "std::array::as_slice")):
            x = x[2] if x[0] == "via" else x[1]
        w = self._window_len(x)
        if w is not None:
            return Lin(w)
        if x[0] in ("param", "local"):
            ty = self.body.ty(x[1])
            n = array_len(self.body, ty)
            if n is not None:
                return Lin(n)
            deps = {("L", x[1])} if x[0] == "local" else set()
            return Lin(0, {("len", ("L", x[1], x[2])): 1}, deps)
        if x[0] == "field":
            from .expr import field_path, walk
            n = self.field_array_len(x)
            if n is not None:
                return Lin(n)
            fp = field_path(x)
            deps = {("L", y[1]) for y in walk(x) if y[0] == "local"} | {("C", y[3]) for y in walk(x) if y[0] == "call"}
            if fp:
                # two locals may share a name (shadowing): the root's index is part of the atom
                root = [y for y in walk(x) if y[0] in ("param", "local")]
                rid = root[0][1] if len(root) == 1 else -1
                return Lin(0, {("len", ("L", -1, "%s#%d" % (fp, rid))): 1}, deps)
            # a field of a computed value (e.g. the element an iterator yielded): an atom keyed like any opaque value
            o = self.opaque(x)
            (k, _), = o.t.items()
            return Lin(0, {("len", k): 1}, o.deps)
        if x[0] == "call" and x[1] in ("std::ops::Index::index", "std::ops::IndexMut::index_mut") and len(x[2]) == 2:
            base, idx = x[2]
            r = range_of(idx)
            if r is None:
                return None
            kind, s, e2 = r
            if kind == "range":
                a, b = self.lin(s), self.lin(e2)
                return (b - a) if a is not None and b is not None else None
            if kind == "to":
                return self.lin(e2)
            if kind == "from":
                bl, a = self.length(base), self.lin(s)
                return (bl - a) if bl is not None and a is not None else None
            if kind == "full":
                return self.length(base)
            return None
        if x[0] == "call":
            # the length of a freshly built collection (e.g. `s.split('|').collect::<Vec<_>>()`): an atom of its own
            o = self.opaque(x)
            (k, _), = o.t.items()
            return Lin(0, {("len", k): 1}, o.deps)
        if x[0] == "agg" and x[1][0] == "array":
            return Lin(len(x[2]))
        if x[0] == "repeat" and isinstance(x[2], int):
            return Lin(x[2])
        return None

    def _window_len(self, x):
        """n for the element yielded by `slice.windows(n)` / `chunks_exact(n)`: `for w in v.windows(2) { w[0]; w[1] }`"""
        if not (x[0] == "field" and x[3] == "0" and x[1][0] == "downcast" and x[1][2] == "Some"):
            return None
        y = x[1][1]
        hops = 0
        while hops < 12:
            hops += 1
            if y[0] in ("ref", "deref", "cast"):
                y = y[1]
            elif y[0] == "via":
                y = y[2]
            elif y[0] == "call" and y[1] == "std::iter::Iterator::next" and y[2]:
                y = y[2][0]
            elif y[0] == "call" and y[1].rsplit("::", 1)[-1] in ("windows", "chunks_exact") and len(y[2]) == 2:
                n = y[2][1]
                return n[1] if n[0] == "const" and isinstance(n[1], int) else None
            else:
                return None
        return None

    def field_array_len(self, x):
        """N when the field expression has type [T; N] (looked up in the ADT table of the program, if one was given)"""
        if self.prog is None or x[0] != "field":
            return None
        a = self.prog.adts.get(x[2])
        u = self.prog.adt_unit.get(x[2])
        if not a or u is None:
            return None
        for v in a.get("variants", []):
            for f in v.get("fields", []):
                if f.get("name") == x[3] and isinstance(f.get("ty"), int):
                    ty = u.types[f["ty"]]
                    if ty["k"] == "array":
                        return ty.get("n")
        return None

    def lin(self, e):
        k = e[0]
        if k == "const":
            if isinstance(e[1], int):
                return Lin(e[1])
            return None
        if k in ("ref", "deref"):
            return self.lin(e[1])
        if k == "cast":
            return self.lin(e[1])
        if k == "via":
            n = e[1]
            if n in ("std::num::from_be_bytes", "std::num::from_le_bytes"):
                return self.opaque(e)
            if n in ("std::convert::Into::into", "std::convert::From::from", "std::clone::Clone::clone", "std::ops::Deref::deref",
                     "std::convert::TryInto::try_into", "std::result::Result::unwrap", "std::option::Option::unwrap"):
                return self.lin(e[2])
            return self.opaque(e)
        if k == "len":
            return self.length(e[1])
        if k in ("param", "local"):
            deps = {("L", e[1])} if k == "local" else set()
            return Lin(0, {("L", e[1], e[2]): 1}, deps)
        if k == "field" and e[1][0] == "bin" and e[3] == "0":
            return self.lin(e[1])      # (a +checked b).0
        if k == "field" and e[1][0] == "local" and e[3] == "0" and e[2] == "":
            ty = self.body.ty(e[1][1])
            if ty["k"] == "tuple" and ty["s"].endswith(", bool)"):
                return self.lin(e[1])  # .0 of a checked-arithmetic temporary kept as an atom
        if k == "bin":
            op = e[1].replace("WithOverflow", "").replace("Unchecked", "")
            a, b = self.lin(e[2]), self.lin(e[3])
            if a is None or b is None:
                return self.opaque(e)
            if op == "Add":
                return a + b
            if op == "Sub":
                return a - b
            if op == "Mul":
                if a.is_const():
                    return b.scale(a.c)
                if b.is_const():
                    return a.scale(b.c)
            if op == "Div" and b.is_const() and b.c > 0:
                q = self.opaque(e)
                # q = a / c (integer division)  =>  a - c*q >= 0
                f = a - q.scale(b.c)
                self.intrinsic[f.key()] = f
                return q
            return self.opaque(e)
        return self.opaque(e)

    def opaque(self, e):
        """an atom: keyed by the calls and variables it is computed from"""
        deps = set()
        from .expr import walk
        for x in walk(e):
            if x[0] == "call":
                deps.add(("C", x[3]))
            elif x[0] == "local":
                deps.add(("L", x[1]))
        from .expr import show
        key = ("O", show(e)[:160], tuple(sorted(deps)))
        return Lin(0, {key: 1}, deps)


def array_len(body, ty):
    t = ty
    while t["k"] in ("ref", "refmut"):
        t = body.tyix(t["i"])
    if t["k"] == "array":
        return t.get("n")
    return None


def range_of(idx):
    """('range', s, e) / ('to', None, e) / ('from', s, None) / ('full',) / ('index', i) from an index expression"""
    x = idx
    while x[0] in ("ref", "deref"):
        x = x[1]
    if x[0] == "agg" and x[1][0] == "adt":
        name = x[1][1]
        if name.endswith("ops::Range") and len(x[2]) == 2:
            return ("range", x[2][0], x[2][1])
        if name.endswith("ops::RangeTo") and len(x[2]) == 1:
            return ("to", None, x[2][0])
        if name.endswith("ops::RangeFrom") and len(x[2]) == 1:
            return ("from", x[2][0], None)
        if name.endswith("ops::RangeFull"):
            return ("full", None, None)
        return None
    if x[0] == "const" and "RangeFull" in (x[2] or ""):
        return ("full", None, None)
    return ("index", x, None)


def prove(goal, facts, depth=0, max_depth=16, seen=None):
    """goal (Lin) >= 0 from facts (list of Lin, each >= 0)?  Greedy elimination of negative coefficients."""
    if goal.nonneg():
        return True
    if depth >= max_depth:
        return False
    if seen is None:
        seen = set()
    gk = goal.key()
    if gk in seen or len(seen) > 20000:
        return False
    seen.add(gk)
    # pick a negative term
    neg = [(k, v) for k, v in goal.t.items() if v < 0]
    if not neg:
        # only the constant is negative: need a fact with positive constant and otherwise subtractable
        for f in facts:
            if f.c > 0 and all(v >= 0 for v in f.t.values()) is False:
                pass
        cands = [f for f in facts if f.c < 0]   # f = X - c >= 0  => X >= c : subtracting f raises the constant
        for f in cands:
            lam = goal.c / f.c            # both negative -> positive multiplier
            g2 = goal - f.scale(lam)
            if prove(g2, facts, depth + 1, max_depth, seen):
                return True
        return False
    k, v = min(neg, key=lambda kv: repr(kv[0]))
    for f in facts:
        a = f.t.get(k, 0)
        if a < 0:
            lam = v / a                   # positive
            g2 = goal - f.scale(lam)
            if prove(g2, facts, depth + 1, max_depth, seen):
                return True
    return False
