"""Whole-program call graph over MIR-lite facts.

Edge kinds (site = basic block of the caller):
  call     resolved direct call of a body in the analysed crates (runs synchronously)
  await    `Future::poll` resolved by rustc to a coroutine body (the `.await` of an async fn/block)
  dyn      call of a trait method that did not resolve to one instance: class-hierarchy edges to
           every impl of that trait method in the analysed crates
  creates  the caller constructs a closure / coroutine value of that body
  spawn    the constructed value (or the future returned by the call) flows into a spawn function:
           the callee starts a new task and is NOT part of the caller's execution
"""
import re

from .facts import callee_of, strip_generics

SPAWN_FUNCS = (
    "tokio::spawn",
    "tokio::task::spawn",
    "tokio::task::spawn::spawn",
    "tokio::task::Builder::spawn",
    "tokio::task::Builder::spawn_local",
    "tokio::task::Builder::spawn_on",
    "tokio::task::spawn_local",
    "tokio::task::spawn_blocking",
    "tokio::task::blocking::spawn_blocking",
    "tokio::runtime::Handle::spawn",
    "tokio::runtime::Handle::spawn_blocking",
    "tokio::runtime::Runtime::spawn",
    "tokio::runtime::Runtime::spawn_blocking",
    "tokio::task::JoinSet::spawn",
    "tokio::task::LocalSet::spawn_local",
    "wasm_bindgen_futures::spawn_local",
    "wasm_bindgen_futures::future_to_promise",
    "std::thread::spawn",
    "std::thread::Builder::spawn",
)

# calls that hand their (future/closure) argument through to their result
PASS_THROUGH = (
    "std::future::IntoFuture::into_future",
    "<F as std::future::IntoFuture>::into_future",
    "std::pin::Pin::new_unchecked",
    "std::pin::Pin::new",
    "std::pin::Pin::as_mut",
    "std::pin::Pin::get_mut",
    "std::boxed::Box::pin",
    "std::boxed::Box::new",
    "std::convert::Into::into",
    "std::convert::From::from",
    "std::ops::DerefMut::deref_mut",
    "std::ops::Deref::deref",
    "tokio::time::timeout",
)


def norm(path):
    return strip_generics(path) if path else path


def is_spawn(path):
    p = norm(path or "")
    return any(p == s or p.startswith(s + "::") for s in SPAWN_FUNCS)


def is_pass_through(path):
    p = norm(path or "")
    if p.startswith("<") and " as " in p:
        # `<X as Trait>::method` -> Trait::method
        m = re.match(r"<.* as ([^>]+(?:<.*>)?)>::(\w+)$", p)
        if m:
            p = "%s::%s" % (strip_generics(m.group(1)), m.group(2))
    return p in PASS_THROUGH


def is_future_ty(ty):
    s = ty["s"]
    return (
        ty["k"] == "coroutine"
        or s.startswith("impl std::future::Future")
        or s.startswith("std::pin::Pin<std::boxed::Box<dyn std::future::Future")
        or s.startswith("{async ")
    )


def operand_local(op):
    if op[0] in ("cp", "mv"):
        return op[1][0]
    return None


def rvalue_src_locals(rv):
    """locals whose value (or a reference to it) the rvalue carries into its destination"""
    k = rv[0]
    if k == "use":
        l = operand_local(rv[1])
        return [l] if l is not None else []
    if k in ("ref", "raw"):
        return [rv[2][0]]
    if k == "cast":
        l = operand_local(rv[2])
        return [l] if l is not None else []
    if k == "agg":
        return [l for l in (operand_local(o) for o in rv[2]) if l is not None]
    return []


def flow_of(body, start_local):
    """Flow-insensitive forward closure of where the value in `start_local` goes.
    Returns dict(polled=[bb..], spawned=[bb..], returned=bool, escapes=[(bb, callee)])."""
    aliases = {start_local}
    changed = True
    polled, spawned, escapes = set(), set(), set()
    returned = False
    while changed:
        changed = False
        for bb, blk in enumerate(body.blocks):
            for st in blk["s"]:
                if st[0] != "=":
                    continue
                dest = st[1][0]
                if dest in aliases:
                    continue
                if any(l in aliases for l in rvalue_src_locals(st[2])):
                    aliases.add(dest)
                    changed = True
            t = blk["t"]
            if t["k"] != "call":
                continue
            arg_locals = [operand_local(a) for a in t["args"]]
            if not any(l in aliases for l in arg_locals if l is not None):
                continue
            cal = callee_of(t)
            if t.get("callee") == "std::future::Future::poll" and arg_locals and arg_locals[0] in aliases:
                polled.add(bb)
            elif is_spawn(cal) or is_spawn(t.get("callee")):
                spawned.add(bb)
            elif is_pass_through(cal) or is_pass_through(t.get("callee")):
                d = t["dest"][0]
                if d not in aliases:
                    aliases.add(d)
                    changed = True
            else:
                escapes.add((bb, cal))
    if 0 in aliases:
        returned = True
    return {"polled": sorted(polled), "spawned": sorted(spawned), "returned": returned,
            "escapes": sorted(escapes, key=lambda x: (x[0], x[1] or "")), "aliases": aliases}


class Edge:
    __slots__ = ("src", "dst", "kind", "bb", "via")

    def __init__(self, src, dst, kind, bb, via=None):
        self.src, self.dst, self.kind, self.bb, self.via = src, dst, kind, bb, via

    def __repr__(self):
        return "%s -[%s@bb%d]-> %s" % (self.src, self.kind, self.bb, self.dst)


class CallGraph:
    def __init__(self, prog, units=None):
        self.prog = prog
        self.units = units if units is not None else prog.units
        self.bodies = {}
        for u in self.units:
            for p, b in u.bodies.items():
                if not b.is_promoted:
                    self.bodies.setdefault(p, b)
        # trait method -> impl method bodies (class hierarchy)
        self.impls_of = {}
        for u in self.units:
            for imp in u.impls:
                for trait_item, impl_item in imp["items"]:
                    if impl_item in self.bodies:
                        self.impls_of.setdefault(trait_item, set()).add(impl_item)
        self.out = {p: [] for p in self.bodies}
        self.inn = {p: [] for p in self.bodies}
        self.fnptr_calls = []
        self.unresolved_dyn = []
        self._flows = {}
        for p, b in self.bodies.items():
            self._edges_of(p, b)

    def flow(self, body, local):
        key = (body.path, local)
        if key not in self._flows:
            self._flows[key] = flow_of(body, local)
        return self._flows[key]

    def _add(self, src, dst, kind, bb, via=None):
        e = Edge(src, dst, kind, bb, via)
        self.out[src].append(e)
        self.inn[dst].append(e)

    def targets_of_call(self, t):
        """(kind, [body paths]) for a call terminator."""
        res = t.get("res")
        callee = t.get("callee")
        if callee is None:
            return "fnptr", []
        if callee == "std::future::Future::poll":
            if res and res in self.bodies:
                return "await", [res]
            return "poll-unresolved", []
        if res and res in self.bodies and t.get("rkind") != "Virtual":
            return "call", [res]
        if t.get("rkind") == "Virtual" or (t.get("trait") and (not res or res == callee)):
            impls = sorted(self.impls_of.get(callee, ()))
            if impls:
                return "dyn", impls
        if callee in self.bodies:
            return "call", [callee]
        return "external", []

    def _edges_of(self, p, b):
        for bb, blk in enumerate(b.blocks):
            for st in blk["s"]:
                if st[0] == "=" and st[2][0] == "agg" and st[2][1][0] in ("closure", "coroutine", "coroutine_closure"):
                    tgt = st[2][1][1]
                    if tgt not in self.bodies:
                        continue
                    dest = st[1][0]
                    fl = self.flow(b, dest)
                    if fl["spawned"] and not fl["polled"]:
                        self._add(p, tgt, "spawn", bb)
                    else:
                        self._add(p, tgt, "creates", bb)
            t = blk["t"]
            if t["k"] != "call":
                continue
            kind, tgts = self.targets_of_call(t)
            if kind == "fnptr":
                self.fnptr_calls.append((p, bb))
                continue
            if not tgts:
                continue
            if kind in ("call", "dyn"):
                dest = t["dest"]
                if not dest[1] and is_future_ty(b.ty(dest[0])):
                    fl = self.flow(b, dest[0])
                    if fl["spawned"] and not fl["polled"]:
                        kind = "spawn"
            for tgt in tgts:
                self._add(p, tgt, kind, bb, via=t.get("callee"))

    def reachable_from(self, roots, kinds=("call", "await", "dyn", "creates", "spawn")):
        seen = set()
        stack = [r for r in roots if r in self.bodies]
        while stack:
            p = stack.pop()
            if p in seen:
                continue
            seen.add(p)
            for e in self.out[p]:
                if e.kind in kinds and e.dst not in seen:
                    stack.append(e.dst)
        return seen

    def shortest_path(self, src, pred, kinds=("call", "await", "dyn", "creates")):
        """BFS from src to the first body satisfying pred; returns list of edges or None."""
        prev = {src: None}
        queue = [src]
        while queue:
            p = queue.pop(0)
            if pred(p):
                path = []
                while prev[p] is not None:
                    e = prev[p]
                    path.append(e)
                    p = e.src
                return path[::-1]
            for e in self.out.get(p, ()):
                if e.kind in kinds and e.dst not in prev:
                    prev[e.dst] = e
                    queue.append(e.dst)
        return None
